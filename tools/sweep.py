#!/usr/bin/env python3
"""Run checks against patched copies of the repository without touching /repo.

Meant for `vp run --with-repo -- python3 tools/sweep.py <benign|seeded|unchanged> [tier] [Cxx ...]`:
the snapshot of /verif is the working directory and $VP_RUN_REPO a snapshot of /repo's HEAD. The harness
crate of the snapshot is re-pointed at that copy, each patch is applied there, the listed checks (default:
all 17 quick) are run, and the patch is undone. Prints one line per (patch, check) and a JSON summary.

  benign    every tools/benign/*.diff — every check must stay silent (exit 0)
  seeded    every seeded/*/patch.diff — the owning property's check must exit 1
  unchanged no patch: silence run over several VERIF_SEED values
"""
import glob
import json
import os
import re
import subprocess
import sys
import time

ROOT = os.path.dirname(os.path.dirname(os.path.abspath(__file__)))
REPO = os.environ.get("VP_RUN_REPO", "/repo")
ALL = ["C%02d" % i for i in range(1, 18)]


def sh(cmd, cwd=None, env=None, timeout=7200):
    r = subprocess.run(cmd, shell=True, cwd=cwd, env=env, stdout=subprocess.PIPE, stderr=subprocess.STDOUT, timeout=timeout)
    return r.returncode, r.stdout.decode("utf-8", "replace")


def repoint():
    if REPO == "/repo":
        return
    p = os.path.join(ROOT, "harness", "Cargo.toml")
    s = open(p).read()
    s = s.replace('path = "/repo"', 'path = "%s"' % REPO)
    open(p, "w").write(s)
    # the checks copy /repo/Cargo.lock only when the harness has none; it is committed, so nothing to do


def run_checks(label, checks, tier, seed, expect):
    out = {}
    for c in checks:
        env = dict(os.environ, VERIF_SEED=str(seed), CARGO_NET_OFFLINE="true")
        t = time.time()
        rc, o = sh("./check %s %s" % (c, tier), ROOT, env)
        first = [l for l in o.splitlines() if l.startswith(("VIOLATION", "INCONCLUSIVE"))][:1]
        detail = [l.strip() for l in o.splitlines() if l.startswith("    ")][:2]
        out[c] = {"exit": rc, "s": round(time.time() - t, 1), "first": first, "detail": detail}
        flag = "" if expect is None or (rc == expect) else "   <<<<<< UNEXPECTED"
        print("%-34s %s seed=%s exit=%d %5.1fs %s %s%s" % (label, c, seed, rc, time.time() - t, first[0][:100] if first else "", detail[0][:160] if detail else "", flag), flush=True)
    return out


def main():
    mode = sys.argv[1]
    tier = sys.argv[2] if len(sys.argv) > 2 and sys.argv[2] in ("quick", "thorough") else "quick"
    checks = [a for a in sys.argv[2:] if re.match(r"^C\d\d$", a)] or ALL
    repoint()
    rc, o = sh("./check setup", ROOT)
    print("setup:", rc, o[-300:].replace("\n", " | "), flush=True)
    summary = {}
    if mode == "unchanged":
        for seed in [int(a[5:]) for a in sys.argv if a.startswith("seed=")] or [1, 2, 3]:
            summary["seed%d" % seed] = run_checks("unchanged", checks, tier, seed, 0)
    else:
        patches = sorted(glob.glob(os.path.join(ROOT, "tools", "benign", "*.diff"))) if mode == "benign" else sorted(glob.glob(os.path.join(ROOT, "seeded", "*", "patch.diff")))
        only = [a[5:] for a in sys.argv if a.startswith("only=")]
        for p in patches:
            label = os.path.basename(p)[:-5] if mode == "benign" else os.path.basename(os.path.dirname(p))
            if only and not any(o_ in label for o_ in only):
                continue
            sh("git checkout -- .", REPO)
            rc, o = sh("git apply %s" % p, REPO)
            if rc != 0:
                print(label, "PATCH DOES NOT APPLY", o[:200], flush=True)
                continue
            if mode == "seeded":
                meta = json.load(open(os.path.join(os.path.dirname(p), "meta.json")))
                cs = meta.get("checks_to_run", [meta["breaks_property"]])
                res = run_checks(label, cs, tier, 1, None)
                caught = [c for c, v in res.items() if v["exit"] == 1]
                print("%-34s caught by %s" % (label, caught or "NOTHING  <<<<<<"), flush=True)
                summary[label] = res
            else:
                summary[label] = run_checks(label, checks, tier, 1, 0)
            sh("git checkout -- .", REPO)
    bad = {k: {c: v for c, v in r.items() if (v["exit"] != 0 if mode != "seeded" else False)} for k, r in summary.items()}
    bad = {k: v for k, v in bad.items() if v}
    print("SUMMARY " + json.dumps({"mode": mode, "tier": tier, "alarms": bad}, indent=1))
    with open(os.path.join(ROOT, "sweep-%s-%s.json" % (mode, tier)), "w") as f:
        json.dump(summary, f, indent=1)


if __name__ == "__main__":
    main()
