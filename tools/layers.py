"""Builds (cfg A/B x release/dev/miri/asan, valgrind wrapper) and the job table per property and tier."""
import os
import re
import subprocess

ROOT = os.path.dirname(os.path.dirname(os.path.abspath(__file__)))
HARNESS = os.path.join(ROOT, "harness")
TARGET = os.path.join(ROOT, "target")
NSHARDS = 16
MIRI = "@miri"


def _env(extra=None):
    e = dict(os.environ)
    e["CARGO_NET_OFFLINE"] = "true"
    e["CARGO_TERM_COLOR"] = "never"
    if extra:
        e.update(extra)
    return e


def _sync_lock():
    """The harness uses exactly the crates of /repo's lock file."""
    src = "/repo/Cargo.lock"
    dst = os.path.join(HARNESS, "Cargo.lock")
    if not os.path.exists(dst) and os.path.exists(src):
        import shutil
        shutil.copy(src, dst)


def build(cfg, layer, log):
    """Rebuild the harness (and enr from /repo's current working tree) for one configuration."""
    _sync_lock()
    # A: k256+serde+ed25519 (+hooks); B: A + rust-secp256k1; D: the crate's DEFAULT feature set (k256+serde, + hooks)
    feats = {"B": ["--features", "libsecp"], "A": [], "D": ["--no-default-features", "--features", "refsecp"]}[cfg]
    if layer in ("release", "valgrind"):
        tdir = os.path.join(TARGET, cfg)
        cmd = ["cargo", "build", "--release"] + feats
        binary = os.path.join(tdir, "release", "enrmon")
        env = _env({"CARGO_TARGET_DIR": tdir})
    elif layer == "dev":
        tdir = os.path.join(TARGET, cfg)
        cmd = ["cargo", "build"] + feats
        binary = os.path.join(tdir, "debug", "enrmon")
        env = _env({"CARGO_TARGET_DIR": tdir})
    elif layer == "miri":
        tdir = os.path.join(TARGET, "miri")
        cmd = ["cargo", "+nightly", "miri", "run", "--no-default-features", "--features", "ed", "--", "selftest"]
        binary = MIRI
        env = _env({"CARGO_TARGET_DIR": tdir, "MIRIFLAGS": "-Zmiri-disable-isolation"})
    elif layer == "asan":
        tdir = os.path.join(TARGET, "asan")
        cmd = ["cargo", "+nightly", "build", "--release", "--target", "x86_64-unknown-linux-gnu"] + feats
        binary = os.path.join(tdir, "x86_64-unknown-linux-gnu", "release", "enrmon")
        env = _env({"CARGO_TARGET_DIR": tdir, "RUSTFLAGS": "-Zsanitizer=address -Cforce-frame-pointers=yes -Cllvm-args=-asan-use-after-scope=0",
                    "CC": "clang", "CFLAGS": "-fsanitize=address"})
    else:
        return False, None, "unknown layer " + layer
    try:
        r = subprocess.run(cmd, cwd=HARNESS, env=env, stdout=subprocess.PIPE, stderr=subprocess.STDOUT, timeout=1500)
    except subprocess.TimeoutExpired:
        return False, None, "build timed out"
    out = r.stdout.decode("utf-8", "replace")
    if r.returncode != 0:
        return False, None, out
    if binary != MIRI and not os.path.exists(binary):
        return False, None, "binary missing after build: " + binary
    return True, binary, out


def setup(log):
    rc = 0
    for cfg, layer, optional in [("B", "release", False), ("A", "release", False), ("D", "release", False), ("B", "dev", False), ("A", "dev", False),
                                 ("A", "miri", True), ("B", "asan", True)]:
        ok, _b, msg = build(cfg, layer, log)
        log("setup: build %s/%s: %s" % (cfg, layer, "ok" if ok else "FAILED"))
        if not ok:
            log(msg[-2000:])
            if not optional:
                rc = 1
    return rc


def wrapper(job, outdir, shard):
    """(argv prefix, environment) for running one worker of this job."""
    layer = job["layer"]
    if layer == "miri":
        return (["cargo", "+nightly", "miri", "run", "-q", "--no-default-features", "--features", "ed", "--"],
                _env({"CARGO_TARGET_DIR": os.path.join(TARGET, "miri"),
                      "MIRIFLAGS": "-Zmiri-disable-isolation -Zmiri-ignore-leaks"}))
    if layer == "valgrind":
        logf = os.path.join(outdir, "valgrind-%d.log" % shard)
        return (["valgrind", "--quiet", "--error-exitcode=0", "--leak-check=full", "--show-leak-kinds=definite",
                 "--errors-for-leak-kinds=definite", "--log-file=" + logf], _env())
    if layer == "asan":
        return ([], _env({"ASAN_OPTIONS": "halt_on_error=1:abort_on_error=1:detect_leaks=1:detect_stack_use_after_scope=0:log_path=" +
                          os.path.join(outdir, "asan-%d" % shard)}))
    return ([], _env())


def sanitizer_reports(job, outdir, shard, output):
    """Notes (strings) describing sanitizer reports of a finished shard; empty when clean."""
    notes = []
    if job["layer"] == "valgrind":
        logf = os.path.join(outdir, "valgrind-%d.log" % shard)
        try:
            txt = open(logf).read()
        except OSError:
            txt = ""
        blocks = [b for b in re.split(r"\n(?==\d+== \S)", txt) if re.search(r"Invalid (read|write)|uninitialised|definitely lost|Mismatched free", b)]
        if blocks:
            notes.append("VALGRIND-REPORT shard %d: %s" % (shard, blocks[0][:1500]))
    if job["layer"] == "miri" and "Undefined Behavior" in output:
        notes.append("MIRI-REPORT shard %d: %s" % (shard, output[-2000:]))
    return notes


def sanitizer_violations(layer_notes):
    out = []
    for name, notes in layer_notes.items():
        for n in notes:
            if n.startswith(("VALGRIND-REPORT", "MIRI-REPORT", "ASAN-REPORT")):
                kind = n.split(" ", 1)[0]
                out.append({"prop": "C03", "rule": "sanitizer-report", "sig": "C03|sanitizer-report|%s" % kind,
                            "detail": n[:3000], "replay": {"kind": "sanitizer", "layer": name}})
    return out


def watchdog_s(job, tier):
    """wall-clock watchdog for one worker: generous (a firing is inconclusive or, if it reproduces in trace
    mode, a hang), but short enough that a quick check with a hanging call still ends"""
    if tier == "quick":
        return 240 if job["layer"] != "miri" else 300
    return job["budget"] * job.get("slack", 3) + 180


def _job(name, cfg, layer, shards, scale, budget, optional=False, nshards=NSHARDS, slack=3):
    return {"name": name, "cfg": cfg, "layer": layer, "shards": list(shards), "nshards": nshards, "scale": scale,
            "budget": budget, "optional": optional, "slack": slack}


HISTORY_PROPS = {"C03", "C04", "C05", "C06", "C07", "C08", "C09", "C10", "C14", "C15"}
OVERFLOW_PROPS = {"C03", "C07", "C09"}
MIRI_PROPS = {"C03": 0.004, "C13": 0.01, "C16": 0.02, "C17": 0.004}
NATIVE_SANITIZER_PROPS = {"C01", "C03", "C11", "C17"}


def jobs(prop, tier):
    quick = tier == "quick"
    js = []
    # the interpreter / sanitizer jobs first: they have the longest fixed duration
    if prop in MIRI_PROPS:
        if quick:
            js.append(_job("A-miri", "A", "miri", range(6), 1.0, 30, optional=True, slack=4))
        else:
            js.append(_job("A-miri", "A", "miri", range(NSHARDS), 1.0, 360, optional=True, slack=3))
    if not quick and prop in NATIVE_SANITIZER_PROPS:
        js.append(_job("B-valgrind", "B", "valgrind", [1, 6, 9, 14], 0.01, 300, optional=True, slack=3))
        js.append(_job("B-asan", "B", "asan", range(NSHARDS), 0.25, 200, optional=True))
    if quick:
        js.append(_job("B-release", "B", "release", range(NSHARDS), 1.0, 100))
        # without rust-secp256k1 (A) and with the crate's default feature set only (D): slices of the same cases
        js.append(_job("A-release", "A", "release", [3, 11], 1.0, 100))
        if prop != "C17":
            js.append(_job("D-release", "D", "release", [7], 1.0, 100))
        # debug-assertion / overflow-check build: a slice for every property (behaviour may differ between profiles)
        js.append(_job("B-dev", "B", "dev", [5], 0.5 if prop in OVERFLOW_PROPS else 0.25, 100))
    else:
        js.append(_job("B-release", "B", "release", range(NSHARDS), 1.0, 420))
        js.append(_job("A-release", "A", "release", range(NSHARDS), 0.2, 200))
        if prop != "C17":
            js.append(_job("D-release", "D", "release", range(NSHARDS), 0.1, 200))
        js.append(_job("B-dev", "B", "dev", range(NSHARDS), 0.05, 240))
    return js
