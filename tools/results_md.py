#!/usr/bin/env python3
"""Regenerate seeded/RESULTS.md from seeded/*/meta.json, the first-attempt logs under docs/ and work/t/try-*.json."""
import glob, json, os, re
ROOT = os.path.dirname(os.path.dirname(os.path.abspath(__file__)))
first = {}
# rounds 1-3 (S01-S35): tried one by one right after they were written
for sid, why in {"S10": "no IPv4-mapped / special IPv6 forms in the alphabet", "S12": "caught by C01 at once; C13's streams held only valid records",
                 "S14": "no 65-byte SEC1 key forms in the alphabet", "S16": "C04's decoder workload had no header-kind flips",
                 "S26": "only four kinds of text mutation were sent through the JSON entry point"}.items():
    first[sid] = "missed: " + why
for f in sorted(glob.glob(os.path.join(ROOT, "docs", "hard-round*-before-strengthening.log"))):
    for line in open(f):
        m = re.match(r"(S\d+)-\S+\s+caught by (.*)", line.strip())
        if m:
            sid, rest = m.group(1), m.group(2)
            if int(sid[1:]) < 36:
                continue
            first[sid] = "missed" if "NOTHING" in rest else "caught (%s)" % rest.replace("[", "").replace("]", "").replace("'", "").split("<")[0].strip()
why_missed = {
 "S36": "no 'leading zero byte of r/s dropped and re-framed' tamper, no ground signatures", "S42": "no deep / huge raw values", "S44": "no record-valued (re-entrant Encodable) insert values",
 "S46": "no negated key pairs adjacent on one thread", "S52": "builder re-use did not add an ill-typed typed value after a successful build",
 "S53": "no histories in which a signer fault is followed by further updates in C04/C05's workloads", "S55": "JSON only through from_str", "S61": "no 'otherwise empty record + one big pair' size sweep",
 "S62": "the genuine record was not re-judged directly after an unparsable-signature forgery", "S63": "no small-order ed25519 keys", "S65": "no uncompressed-key sibling sequences", "S66": "lists were framed by RefRLP only, never by the library's own Encodable",
 "S68": "no byte string wrapping an encoded client list",
 "S71": "a panic was reported under C03 only, not as 'text neither accepted nor rejected'", "S73": "no before/after == comparison across failing updates", "S75": "C15's workload had no size-limit/sequence-boundary cases", "S76": "as S75 (no decode image was not a C15 event)",
 "S87": "error values were never formatted", "S88": "no direct calls of the key traits (decode_public / encode_uncompressed) on 33-byte keys with other tags", "S89": "the harness always built the library with the ed25519 feature; configuration D (crate defaults) was missing",
 "S90": "set_public_key with a key of the other scheme only as a non-final step", "S92": "no byte-value sweep of one-byte values (0x80 boundary) through the typed insert",
 "S93": "no DER-encoded signature tamper", "S96": "no logger was ever installed", "S99": "set_seq on records at the size limit only with larger sequence numbers, never equal-length ones", "S100": "builder size sweep had only ASCII multi-byte keys", "S102": "streams of records never followed a REJECTED record by a valid one",
 "S107": "a re-used builder never set the same port twice", "S108": "C15's pairs never differed in one boundary-shifted key/value split", "S109": "clone_from was never called",
 "S110": "no well-formed record of 64 KiB or more", "S113": "the panic was reported under C03 only; C02 counted it as a foreign event", "S115": "no remove_insert value above 65 KiB", "S116": "the long-signature builder cases ran only in release shards; the overflow check needs the dev layer",
 "S121": "the signer's own key was never written under its slot in a non-canonical accepted encoding (65-byte uncompressed)",
 "S124": "records made by the library's own mutators were never fed back to the decoder monitors in C01's workload; no content sizes around 55/56", "S127": "a re-used builder was never rebuilt after a call that changes only the sequence number",
 "S130": "the node id was not held against the carried key on the state a FAILING update leaves; no signer faults in C10's workload", "S131": "no secrets that are themselves well-formed DER documents", "S133": "wrong-length inputs were patterned bytes only, never seed||public key",
 "S135": "alone vs. with-suffix compared Ok/Err only, not the error value; no custom-scheme records shorter than 64 bytes",
 "S137": "C09's workload never used two key types back to back in one process and had no long-signature scheme", "S139": "no client list with a LIST where the build string belongs",
 "S140": "no builder that fails a build, is corrected and is built again", "S144": "only == was evaluated, never !=", "S145": "no initial record at 2^63-1 (a panic there is a C03 event: caught by C03's dev layer once the start value existed)",
 "S149": "threads only decoded bytes, they never parsed texts", "S150": "no owned String with excess capacity through from_value", "S151": "the 'invalid' 33-byte secp256k1 entry of the two-key workload (02 02 .. 02) is in fact a curve point",
 "S152": "no workload with several threads that each use a different key",
 "S153": "deeply nested values only through the raw entry points, never as an oversized decoder input; an abort while decoding was a C03 event only", "S155": "no run of 2^16 rejected inputs on one thread (needs the debug layer)",
 "S156": "clone_from only between records of equal signature length", "S161": "remove_insert was always given slice iterators (exact size hints)", "S162": "signers returned errors but never panicked",
 "S163": "Debug only without formatter flags and never nested in another value's pretty Debug", "S165": "NodeId == [u8; 32] only against the id's own bytes and single-byte changes",
 "S167": "over-long port values were fixed constants, none congruent to the signed port modulo 65536", "S170": "custom keys came from a small pool without the keys other ENR users define (quic, quic6, eth, ...)",
 "S172": "no near-limit initial record whose own key entry is in the 65-byte uncompressed form", "S177": "NOT CAUGHT: needs a signature scheme whose public key and signature together take < 30 bytes, so that a value of 256+ bytes fits into a record; the harness' custom scheme has 32-byte keys",
 "S178": "the socket-setter sweep changed the address with every port; no record kept one address while only the port changed",
 "S77": "multi-byte characters only at one offset and length", "S78": "only 9 non-hex characters tried", "S80": "no back-to-back imports of permuted seeds", "S81": "no text-looking secrets", "S84": "no non-canonical small-order ed25519 encodings",
}
rows = []
for d in sorted(glob.glob(os.path.join(ROOT, "seeded", "S*", "meta.json"))):
    m = json.load(open(d)); sid = m["id"].split("-")[0]
    fa = first.get(sid, "caught" if int(sid[1:]) < 36 else "(first attempt not measured separately)")
    if fa.startswith("missed") and sid in why_missed and ":" not in fa:
        fa = "missed: " + why_missed[sid]
    caught = m.get("checks_to_run", [m["breaks_property"]])
    now = "/".join(caught) + " quick" if not m.get("not_caught") else "NOT CAUGHT (%s)" % m["not_caught"]
    rows.append("| %s | %s | %s | %s | %s |" % (m["id"], m["breaks_property"], m["needs_to_manifest"].replace("|", "/"), now, fa))
hdr = """# Seeded changes and which check catches them

Every change below was written by a fresh sub-agent that saw only the text of one property and a scratch worktree of the
repository (nothing from /verif), was confirmed with `tools/mutant.py confirm` (patch applies, default and all-features builds, the 38
existing tests pass with it, its demo fails with it and passes without it), and is caught — exit 1 with a VIOLATION line — by the quick
check named in the fourth column (`tools/mutant.py try <id> <Cxx>`; where two checks are named at least one fires, see meta.json).

"first attempt" says what happened when the change was first run against the machinery AS IT WAS BEFORE THE AGENT'S REPORT WAS READ
(rounds S01-S35: tried one by one; later "hard" rounds: measured on a worktree of the earlier commit, logs in docs/hard-round-*-before-
strengthening.log). Every miss was a missing observation; it was repaired by widening a workload or adding an observation, never by
special-casing the change, and the unchanged tree stayed silent afterwards.

| id | property | needs in order to manifest | caught now by | first attempt |
|---|---|---|---|---|
"""
open(os.path.join(ROOT, "seeded", "RESULTS.md"), "w").write(hdr + "\n".join(rows) + "\n")
n_m = sum(1 for r in rows if "| missed" in r); print(len(rows), "rows,", n_m, "missed at first attempt")
