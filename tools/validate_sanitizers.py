#!/usr/bin/env python3
"""One-off validation that every sanitizer layer reports a deliberate heap over-read of the harness
(`enrmon sanitizer-selftest`) and is silent on an in-bounds read. Writes docs/sanitizer-validation.txt."""
import os, subprocess, sys
ROOT = os.path.dirname(os.path.dirname(os.path.abspath(__file__)))
sys.path.insert(0, os.path.join(ROOT, "tools"))
import layers
out = []
def run(name, cmd, env):
    r = subprocess.run(cmd, cwd=layers.HARNESS, env=env, stdout=subprocess.PIPE, stderr=subprocess.STDOUT)
    return r.returncode, r.stdout.decode("utf-8", "replace")
for cfg, layer, marker in [("B", "asan", "heap-buffer-overflow"), ("B", "valgrind", "Invalid read"), ("A", "miri", "Undefined Behavior")]:
    ok, binary, msg = layers.build(cfg, layer, print)
    if not ok:
        out.append("%s: layer does not build here: %s" % (layer, msg[-200:])); continue
    job = {"layer": layer}
    os.makedirs("/verif/work/sanval", exist_ok=True)
    for off, expect in [(16, True), (3, False)]:
        wrapper, env = layers.wrapper(job, "/verif/work/sanval", off)
        if layer == "valgrind":
            wrapper = ["valgrind", "--error-exitcode=99"]
        cmd = list(wrapper) + ([] if binary == layers.MIRI else [binary]) + ["sanitizer-selftest", str(off)]
        rc, o = run(layer, cmd, env)
        logtxt = o
        for f in os.listdir("/verif/work/sanval"):
            if f.startswith("asan-%d" % off):
                logtxt += open(os.path.join("/verif/work/sanval", f)).read()
        fired = marker in logtxt
        out.append("%-9s offset %2d (%s): exit %d, report %s -> %s" % (layer, off, "out of bounds" if expect else "in bounds", rc, "present" if fired else "absent", "as expected" if fired == expect else "UNEXPECTED"))
open(os.path.join(ROOT, "docs", "sanitizer-validation.txt"), "w").write("\n".join(out) + "\n")
print("\n".join(out))
