#!/usr/bin/env python3
"""Seeded-change bookkeeping.

  mutant.py confirm <scratch-worktree> <out/<name> dir> [features]
        confirm a sub-agent's claims in the scratch worktree: patch applies, crate builds, the 38 existing
        tests pass with it, the demo fails with it and passes without it.
  mutant.py keep <out dir> <id> <property> <needs...>
        copy patch.diff + demo.rs into /verif/seeded/<id>/ with meta.json
  mutant.py try <id|patch.diff> <Cxx> [<Cxx> ...]
        apply the patch to /repo, run the quick checks of the listed properties, undo the patch straight
        afterwards (git -C /repo checkout -- .), report exit codes and the first VIOLATION lines.
  mutant.py tryall
        `try` every kept change against the checks recorded in its meta.json; writes seeded/RESULTS.json
"""
import json
import os
import shutil
import subprocess
import sys

ROOT = os.path.dirname(os.path.dirname(os.path.abspath(__file__)))
SEEDED = os.path.join(ROOT, "seeded")
ENV = dict(os.environ, CARGO_NET_OFFLINE="true", CARGO_TERM_COLOR="never")


def sh(cmd, cwd=None, timeout=1800):
    r = subprocess.run(cmd, shell=True, cwd=cwd, env=ENV, stdout=subprocess.PIPE, stderr=subprocess.STDOUT, timeout=timeout)
    return r.returncode, r.stdout.decode("utf-8", "replace")


def confirm(wt, out, features=""):
    res = {"worktree": wt, "out": out}
    feat = ("--features " + features) if features else ""
    sh("git checkout -- . && rm -f tests/demo.rs", wt)
    shutil.copy(os.path.join(out, "demo.rs"), os.path.join(wt, "tests", "demo.rs"))
    rc, o = sh("cargo test --offline %s --test demo 2>&1 | tail -15" % feat, wt)
    res["demo_without_change"] = "pass" if "test result: ok" in o and "FAILED" not in o else "FAIL: " + o[-500:]
    rc, o = sh("git apply %s" % os.path.join(out, "patch.diff"), wt)
    res["patch_applies"] = rc == 0
    rc1, o1 = sh("cargo build --offline 2>&1 | tail -3 && cargo build --offline --all-features 2>&1 | tail -3", wt)
    res["builds"] = "error" not in o1
    os.remove(os.path.join(wt, "tests", "demo.rs"))
    rc, o = sh("cargo test --offline 2>&1 | grep -E 'test result|FAILED'", wt)
    res["existing_tests_with_change"] = o.strip().splitlines()
    res["existing_ok"] = "38 passed; 0 failed" in o and "FAILED" not in o
    shutil.copy(os.path.join(out, "demo.rs"), os.path.join(wt, "tests", "demo.rs"))
    rc, o = sh("cargo test --offline %s --test demo 2>&1 | tail -25" % feat, wt)
    res["demo_with_change"] = "fails (as it should)" if ("FAILED" in o or "panicked" in o or "SIGABRT" in o or "test failed" in o) else "DOES NOT FAIL: " + o[-400:]
    sh("git checkout -- . && rm -f tests/demo.rs", wt)
    res["confirmed"] = bool(res["patch_applies"] and res["builds"] and res["existing_ok"] and res["demo_without_change"] == "pass"
                            and res["demo_with_change"].startswith("fails"))
    print(json.dumps(res, indent=1))
    return res


def keep(out, mid, prop, needs, features=""):
    d = os.path.join(SEEDED, mid)
    os.makedirs(d, exist_ok=True)
    shutil.copy(os.path.join(out, "patch.diff"), os.path.join(d, "patch.diff"))
    shutil.copy(os.path.join(out, "demo.rs"), os.path.join(d, "demo.rs"))
    if os.path.exists(os.path.join(out, "README.md")):
        shutil.copy(os.path.join(out, "README.md"), os.path.join(d, "author-notes.md"))
    meta = {"id": mid, "breaks_property": prop, "needs_to_manifest": needs, "demo_features": features,
            "origin": "written by a fresh sub-agent that saw only the property text and its own scratch worktree",
            "confirmed_by_me": "patch applies on /repo HEAD, builds (default and all features), 38 existing tests pass with it, demo.rs fails with it and passes without it (tools/mutant.py confirm)",
            "checks_to_run": [prop]}
    with open(os.path.join(d, "meta.json"), "w") as f:
        json.dump(meta, f, indent=1)
    print("kept", d)


def try_patch(patch, props, tier="quick"):
    if not os.path.exists(patch):
        patch = os.path.join(SEEDED, patch, "patch.diff")
    rc, o = sh("git status --porcelain --untracked-files=no", "/repo")
    if o.strip():
        print("refusing: /repo has uncommitted changes:\n" + o)
        return None
    rc, o = sh("git apply %s" % patch, "/repo")
    if rc != 0:
        print("patch does not apply:", o)
        return None
    out = {}
    try:
        for p in props:
            rc, o = sh("./check %s %s" % (p, tier), ROOT, timeout=3600)
            lines = [l for l in o.splitlines() if l.startswith(("VIOLATION", "INCONCLUSIVE", "OK ", "KNOWN"))]
            detail = [l for l in o.splitlines() if l.startswith("    ")][:3]
            out[p] = {"exit": rc, "lines": [l[:200] for l in lines[:4]], "detail": [l[:300] for l in detail]}
    finally:
        sh("git checkout -- .", "/repo")
    return out


def main():
    a = sys.argv[1:]
    if not a:
        print(__doc__)
        return
    if a[0] == "confirm":
        confirm(a[1], a[2], a[3] if len(a) > 3 else "")
    elif a[0] == "keep":
        keep(a[1], a[2], a[3], " ".join(a[4:]))
    elif a[0] == "try":
        r = try_patch(a[1], a[2:])
        print(json.dumps(r, indent=1))
    elif a[0] == "tryall":
        results = {}
        for mid in sorted(os.listdir(SEEDED)):
            mp = os.path.join(SEEDED, mid, "meta.json")
            if not os.path.exists(mp):
                continue
            meta = json.load(open(mp))
            r = try_patch(mid, meta.get("checks_to_run", [meta["breaks_property"]]))
            results[mid] = r
            caught = [p for p, v in (r or {}).items() if v["exit"] == 1]
            print(mid, "caught by", caught or "NOTHING", flush=True)
        with open(os.path.join(SEEDED, "RESULTS.json"), "w") as f:
            json.dump(results, f, indent=1)


if __name__ == "__main__":
    main()
