"""Vacuity gates, non-triviality rules, levels and trusted base per property (DESIGN.md §6, §8)."""
import re

LEVEL = {p: "exploration" for p in ["C%02d" % i for i in range(1, 18)]}
LEVEL["C06"] = "fault_enumeration"

ASSUMPTIONS = [
    "the crypto crates used as oracle primitives (k256, libsecp256k1, ed25519-dalek) are correct; they are cross-checked against each other on every call where two are available",
    "RefRLP, RefKeccak, RefDecode and the map/size model in /verif/harness/src/refimpl and model.rs state the properties correctly (self-tested at every start against the EIP-778 vector)",
    "a property is decided only on the executions that were produced: complete on the enumerated finite sub-domains named in coverage.exhaustive_subdomains, sampled elsewhere",
]

RULES = {
    "C01": "inputs = RefSig-signed valid records, every single-bit flip / truncation / byte deletion (complete), byte edits and insertions, 25 field-level tamper classes, re-signed structural mutants, two-key combinations and unstructured bytes, each decoded under every key type through decode, parse and JSON; distinct = hash(key type, input); non-trivial = RefDecode finds structure and public key valid so that acceptance hinges on the signature alone (Accept or Reject(signature))",
    "C02": "inputs = RefSig-signed valid records and structural mutants RE-SIGNED over the malformed content (verbatim and canonicalised), size sweep 290..310, tag sweep, two-key combinations, re-signed random RLP trees; distinct = hash(key type, input); non-trivial = exactly-one-item inputs on which RefDecode is decisive (Accept or Reject, not an open region)",
    "C03": "every decode/parse/JSON call on hostile bytes and strings, every mutator/builder call of every history, and the complete accessor sweep after every successful step; distinct = hash of (input) or (op, arguments, pre-state shape); non-trivial = inputs whose outer RLP header parses, and calls that returned",
    "C04": "accepted inputs (re-encode == input, fields == independent parse) and every Ok state of builder/update histories (bytes, text, Display, JSON round trips); distinct = hash of the record encoding; non-trivial = accepted inputs / Ok states",
    "C05": "every Ok state of bounded-exhaustive and random call histories over the concrete alphabet of all public mutators and builder methods, own-key and other-key signers, every key type incl. the variable-length Toy scheme; distinct = hash of post-state encoding reached by >= 1 successful update",
    "C06": "every failing update in the explored histories; every signing call of every enumerated history is failed once (FaultKey) after a counting run; distinct = hash(mutator, error causes, pre-state encoding) among failing calls",
    "C07": "every successful update (seq' == seq+1 / set_seq exact), every update at 2^64-1, and RefSig-signed records with boundary and random 64-bit seq decoded under every key type; distinct = (mutator, seq class before, after) and (seq value, key type)",
    "C08": "every build and update of the explored histories compared with the sorted-map model (pairs, return values, admissible error kinds); distinct = hash(op with arguments, pre-state encoding) whose transition changes >= 1 pair or returns a non-empty previous value",
    "C09": "for every mutator family x sequence-number class x target result size 280..320 a pre-state padded so that the model-predicted result is exactly the target; builder paddings 150..215; decoder size sweep 290..310; size()==len(encode) on every state; distinct = (mutator, target size, seq, key type) and post-state encodings",
    "C10": "node id of every decoded / built / updated record vs keccak256 of the uncompressed stored key derived independently; key pool with edge scalars and leading-zero x, random keys; distinct = hash(key type, input) of accepted records and post-state encodings",
    "C11": "every W-DEC input decoded under k256, libsecp256k1, CombinedKey (and ed25519 vs CombinedKey) with outcome and all reported fields compared; all 256 tag bytes; two-key combinations; records produced through each back-end re-decoded by every other; distinct = inputs that at least one back-end or RefDecode accepts",
    "C12": "canonical text, un-prefixed text and JSON of RefSig-signed records, and every mutation of them: other prefixes, padding, whitespace, every character position replaced by 9 foreign characters, all non-zero trailing-bit values, 1..n bytes appended before base64; distinct = hash(string, key type, entry point)",
    "C13": "item || suffix buffers for valid and invalid records with suffix lengths 0..16 and 290..310 (complete) and sampled up to 1000, five suffix fills; 1..8 records back to back and as an RLP list; distinct = hash(item, suffix length, fill, key type)",
    "C14": "all 65 536 ports x 4 port keys x {builder, typed setter, socket setter, decode}; all 64 presence combinations of the six address keys; typed accessors and get_decodable vs RefRLP reading of the raw value on every state; distinct = (port, key type), record encodings",
    "C15": "per history a pool of states, their clones, decode images, re-signings, re-keyings and one-field edits; all ordered pairs and the eq closure (reflexive, symmetric, transitive), hash, content, compare_content; distinct = hash(encoding a, encoding b)",
    "C16": "32-byte values (patterned and random) through new/From/parse/raw/as_ref/==/Hash/JSON/Debug/Display; parse on every slice length 0..=64; deserialisation of hex strings of length 0..=70, mixed case, 13 malformed shapes, 9 non-hex characters at random positions; distinct = hash of the 32 bytes",
    "C17": "32-byte secrets: 0, 1, n-1, n, n+1, 2^256-1, n/2, p, near-n and random, imported as secp256k1 and ed25519; public key vs independent derivation, export, wiped buffer, signed record verified by RefSig; wrong lengths for ed25519; distinct = hash of the secret",
}

# (regex over counter names, minimum total) — a run that did not observe these is inconclusive
GATES = {
    "C01": [(r"^lib-made-records-judged$", 200, "sum"), (r"^cls\.sig-over-other-framing\..*\.reject$", 10, "sum"), (r"^concurrent-decodes$", 200, "sum"), (r"^canary-redecodes$", 50, "sum"), (r"^reverse-pass-decodes$", 50, "sum"), (r"^direct-key-api$", 10, "sum"), (r"^interference-steps$", 50, "sum"), (r"^cls\.valid-sig-r-leading-zero\..*\.accept$", 1, "sum"),
            (r"^accepted\.(k256|libsecp256k1|ed25519|combined|toy)$", 1, "per"),
            (r"^cls\.sig-high-s-twin\.(k256|libsecp256k1|combined)\.reject$", 1, "per"),
            (r"^cls\.(sig-by-other-key|sig-over-seq-plus-1|sig-over-value-changed|sig-of-another-record|sig-wrong-length|pubkey-swapped)\.(k256|libsecp256k1|ed25519|combined)\.reject$", 1, "per"),
            (r"^cls\.bit-flip\..*\.reject$", 1000, "sum"), (r"^cls\.truncation\..*\.reject$", 100, "sum")],
    "C02": [(r"^volume-stress-calls$", 100000, "sum"), (r"^cls\.(size-giant-nested|nested-input)\..*\.reject$", 4, "sum"), (r"^lib-made-records-judged$", 200, "sum"), (r"^concurrent-decodes$", 200, "sum"), (r"^canary-redecodes$", 100, "sum"), (r"^interference-steps$", 50, "sum"), (r"^cls\.sig-der-encoded\..*\.reject$", 1, "sum"),
            (r"^ref\.accept\.(k256|libsecp256k1|ed25519|combined|toy)\.accept$", 1, "per"),
            (r"^ref\.(unsorted-keys|duplicate-key|missing-value|no-id|id|no-pubkey|pubkey-invalid|pubkey-not-string|port|ip|ip6|seq|item-frame|outer-not-list|outer-frame|size|signature|key-not-string|signature-not-string|empty-list|no-seq)\.[a-z0-9]+\.reject$", 1, "each-rule")],
    "C03": [(r"^volume-stress-calls$", 100000, "sum"), (r"^signer-panic-cases$", 5, "sum"), (r"^c15\.clone_from$", 100, "sum"), (r"^concurrent-decodes$", 200, "sum"), (r"^concurrent-steps$", 100, "sum"), (r"^c03\.error-values-formatted$", 100, "sum"), (r"^byte-value-histories$", 50, "sum"),
            (r"^c03\.accessor-calls$", 1000, "sum"), (r"^decode\.", 1000, "sum"), (r"^c03\.string-calls$", 1000, "sum"), (r"^steps$", 500, "sum")],
    "C04": [(r"^accepted$", 100, "sum"), (r"^c04\.roundtrips$", 500, "sum")],
    "C05": [(r"^signer-panic-cases$", 5, "sum"), (r"^short-signature-cases$", 20, "sum"), (r"^incremental-builds$", 100, "sum"), (r"^fault-len1-histories$", 50, "sum"), (r"^concurrent-steps$", 100, "sum"), (r"^aux-record-steps$", 100, "sum"), (r"^fault-histories$", 10, "sum"), (r"^byte-value-histories$", 100, "sum"), (r"^random-builder-plans$", 10, "sum"), (r"^builder-reuse$", 1, "sum"),
            (r"^states-checked$", 1000, "sum"), (r"^rekey-steps-ok$", 20, "sum"), (r"^op\.[a-z_0-9]+\.ok$", 1, "each-op")],
    "C06": [(r"^signer-panic-cases$", 5, "sum"), (r"^concurrent-steps$", 100, "sum"), (r"^fault\.injected-runs$", 500, "sum"), (r"^c06\.evals$", 1000, "sum"),
            (r"^gate\.fail\.(set_seq|insert|typed-setter|remove_key|set_socket|remove_insert)\.signer-fault$", 1, "per"),
            (r"^gate\.fail\.(insert|typed-setter|remove_key|set_socket|remove_insert)\.seq-overflow$", 1, "per"),
            (r"^gate\.fail\.(set_seq|insert|typed-setter|set_socket|remove_insert)\.size$", 1, "per"),
            (r"^gate\.fail\.(insert|remove_insert)\.(ill-typed|unsupported-id)$", 1, "per"),
            (r"^gate\.fail\.insert\.malformed-rlp$", 1, "per")],
    "C07": [(r"^concurrent-steps$", 100, "sum"), (r"^c07\.evals$", 1000, "sum"), (r"^c07\.decode-seq-evals$", 500, "sum"), (r"^gate\.fail\.[a-z_-]+\.seq-overflow$", 10, "sum")],
    "C08": [(r"^signer-panic-cases$", 5, "sum"), (r"^concurrent-steps$", 100, "sum"), (r"^c08\.evals$", 1000, "sum"), (r"^op\.[a-z_0-9]+\.ok$", 1, "each-op"), (r"^op\.build\.(ok|err)$", 1, "per")],
    "C09": [(r"^c09\.minimal-record-cases$", 50, "sum"), (r"^c09\.cross-scheme-cases$", 10, "sum"),
            (r"^c09\.targeted-cases$", 1000, "sum"), (r"^gate\.c09\.target\.(insert|typed-setter|set_socket|remove_insert|set_seq)\.(le300|gt300)$", 1, "per"),
            (r"^gate\.c09\.refused\.(insert|typed-setter|set_socket|remove_insert|set_seq)$", 1, "per"), (r"^gate\.build-ok-size\.small$", 1, "sum"),
            (r"^gate\.fail\.build\.size$", 1, "sum")],
    "C10": [(r"^fault-len1-histories$", 50, "sum"), (r"^c10\.evals$", 1000, "sum"), (r"^c10\.same-key-pairs$", 100, "sum"), (r"^accepted\.(k256|libsecp256k1|ed25519|combined)$", 1, "per")],
    "C11": [(r"^key-api-stress-rounds$", 20000, "sum"), (r"^concurrent-decodes$", 200, "sum"), (r"^direct-key-api$", 10, "sum"), (r"^cls\.ed-small-order-key\.", 10, "sum"),
            (r"^c11\.compared-accepting\.(k256-libsecp256k1|k256-combined|libsecp256k1-combined|ed25519-combined)$", 1, "per"),
            (r"^c11\.isolation-checks$", 100, "sum"), (r"^c11\.precedence-checks$", 10, "sum"), (r"^c11\.cross-redecode\.", 100, "sum")],
    "C12": [(r"^concurrent-parses$", 200, "sum"), (r"^text\.codepoint-sweep\.", 1000, "sum"), (r"^text\.non-string-json\.reject$", 10, "sum"),
            (r"^text\.(canonical|canonical-noprefix)\.accept$", 1, "per"),
            (r"^text\.(other-prefix|padding|whitespace|foreign-character|trailing-bits|bytes-after-record)\.reject$", 1, "per")],
    "C13": [(r"^cls\.tiny-item\.|^stream\.invalid-item\.reject$", 100, "sum"), (r"^concurrent-decodes$", 200, "sum"), (r"^stream\.size-sweep$", 100, "sum"), (r"^stream\.mixed-sequences$", 10, "sum"), (r"^stream\.embedded-records$", 5, "sum"), (r"^stream\.encoded-lists$", 10, "sum"), (r"^stream\.valid-after-refused$", 10, "sum"), (r"^stream\.reverse-pass$", 5, "sum"),
            (r"^stream\.valid-item\.accept$", 100, "sum"), (r"^stream\.invalid-item\.reject$", 100, "sum"), (r"^stream\.sequences$", 10, "sum"), (r"^stream\.lists$", 10, "sum")],
    "C14": [(r"^ports\.(builder|setter|socket-setter|decode)$", 65536 * 4 * 2, "per"), (r"^presence-combinations$", 64 * 3, "sum"), (r"^c14\.get_decodable-evals$", 100, "sum")],
    "C15": [(r"^c15\.size-boundary-cases$", 10, "sum"),
            (r"^c15\.pairs$", 10000, "sum"), (r"^c15\.equal-pairs$", 100, "sum"), (r"^c15\.content-equal-pairs$", 100, "sum")],
    "C16": [(r"^nodeid\.raw-eq-cases$", 100, "sum"), (r"^nodeid\.codepoint-sweep$", 1000, "sum"), (r"^nodeid\.multibyte-offsets$", 100, "sum"),
            (r"^nodeid\.parse-lengths$", 65 * 4, "sum"), (r"^nodeid\.hex-lengths$", 71 * 5, "sum"), (r"^nodeid\.accept-forms$", 1000, "sum"), (r"^nodeid\.reject-forms$", 1000, "sum")],
    "C17": [(r"^c17\.guarded-buffers$", 100, "sum"), (r"^c17\.back-to-back-imports$", 50, "sum"),
            (r"^c17\.secp\.accepted$", 100, "sum"), (r"^c17\.secp\.rejected$", 4, "sum"), (r"^c17\.ed\.accepted$", 100, "sum"), (r"^c17\.ed\.wrong-length$", 7, "sum"), (r"^c17\.signed-records$", 20, "sum")],
}

ALL_OPS = ["set_seq", "insert", "insert_raw_rlp", "set_ip", "set_udp4", "set_udp6", "set_tcp4", "set_tcp6", "remove_udp4", "remove_udp6",
           "remove_tcp", "remove_tcp6", "set_client_info", "set_udp_socket", "set_tcp_socket", "remove_udp_socket", "remove_udp6_socket",
           "remove_tcp_socket", "remove_tcp6_socket", "remove_key", "remove_insert", "set_public_key"]


def _expand(rx):
    """alternatives of the (single) parenthesised groups of a gate regex, for 'per' gates"""
    import itertools
    parts = re.findall(r"\(([^()]*\|[^()]*)\)", rx)
    if not parts:
        return None
    return [p.split("|") for p in parts]


def check(prop, tier, counters):
    missing = []
    for rx, minimum, mode in GATES.get(prop, []):
        c = re.compile(rx)
        matched = {k: v for k, v in counters.items() if c.match(k)}
        if mode == "sum":
            if sum(matched.values()) < minimum:
                missing.append("%s<%d(got %d)" % (rx, minimum, sum(matched.values())))
        elif mode == "per":
            alts = _expand(rx)
            if alts is None:
                if sum(matched.values()) < minimum:
                    missing.append(rx)
                continue
            import itertools
            for combo in itertools.product(*alts):
                # build the concrete name by substituting groups in order
                name = rx
                for a in combo:
                    name = re.sub(r"\(([^()]*\|[^()]*)\)", a.replace("\\", "\\\\"), name, count=1)
                name = name.strip("^$").replace("\\.", ".")
                if "libsecp256k1" in name and not any("libsecp256k1" in k for k in counters):
                    continue
                if counters.get(name, 0) < minimum:
                    missing.append("%s<%d(got %d)" % (name, minimum, counters.get(name, 0)))
        elif mode == "each-op":
            for op in ALL_OPS:
                if counters.get("op.%s.ok" % op, 0) < minimum:
                    missing.append("op.%s.ok" % op)
        elif mode == "each-rule":
            alts = _expand(rx)[0]
            for rule in alts:
                tot = sum(v for k, v in counters.items() if k.startswith("ref.%s." % rule) and k.endswith(".reject"))
                if tot < minimum:
                    missing.append("ref.%s.*.reject" % rule)
    return missing


def class_table(counters):
    t = {}
    for k, v in counters.items():
        if k.startswith("cls."):
            _, cls, kt, outcome = k.split(".", 3) if k.count(".") >= 3 else (None, k, "", "")
            t.setdefault(cls, {}).setdefault(kt, {})[outcome] = v
    return t


def exhaustive_subdomains(prop, tier, counters):
    out = []
    if prop == "C14" and counters.get("ports.complete-enumerations", 0) >= 16:
        out.append("all 65 536 port values on tcp/tcp6/udp/udp6 through builder, typed setter, socket setter and decode (Toy and k256%s)" % ("" if tier == "quick" else ", libsecp256k1, ed25519, CombinedKey"))
        out.append("all 64 presence combinations of ip/ip6/tcp/tcp6/udp/udp6")
    if prop == "C16":
        out.append("NodeId::parse on every slice length 0..=64; hex strings of every length 0..=70 with and without prefix")
    if prop in ("C01", "C03", "C11"):
        out.append("every single-bit flip, truncation and single-byte deletion of each base record")
    if prop in ("C05", "C06", "C07", "C08", "C03", "C04", "C10", "C14"):
        out.append("all length-1 histories over the %d-op alphabet x all initial records x both signers x all key types" % len(ALL_OPS))
    if prop == "C12":
        out.append("every character position of the fixed base texts replaced by each of 9 foreign characters; all non-zero trailing-bit values")
    if prop == "C13":
        out.append("suffix lengths 0..=16 and 290..=310 for every item, key type and fill")
    return out
