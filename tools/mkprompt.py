#!/usr/bin/env python3
"""Write the prompt for a seeded-change sub-agent: the text of ONE property and a scratch worktree, nothing from /verif.
   mkprompt.py <Cxx> <worktree> <n-changes> <out-file>"""
import json, sys
prop, wt, n, out = sys.argv[1], sys.argv[2], sys.argv[3], sys.argv[4]
p = next(json.loads(l) for l in open("/verif/properties.jsonl") if json.loads(l)["id"] == prop)
AVOID = """a cache of a decompressed public key looked up by the x coordinate only; a thread-local scratch buffer that is not cleared on an error path; skipping or mis-computing the size re-check after signing when the sequence number's encoding grows; IPv4-mapped IPv6 addresses in the socket setters; trimming the `enr:` / `0x` prefix repeatedly; deserialising into a borrowed `&str`; accepting high-S, DER or left-padded signatures; a `length()` override that miscounts one-byte or long keys; a verification cache shared across key types; a builder `sanitized` flag; `split_at` on a non-character boundary; a length compared after truncation to u16; remembering which identity scheme resolved the previous record; treating keys that merely start with `tcp`/`udp` as ports; `unwrap()` on `from_utf8` or short slices inside `log::debug!`/`trace!` arguments; a restore placed inside `debug_assert!`; an undo journal that records an intermediate value; comparing whole records with `==` to decide whether to roll back; draining a list inside a `log::trace!` argument; a memo of the last Display/base64 string; a cache of the last socket address; a hand-rolled sequence-number parser without the 8-byte limit; a list-header helper that is off by one at 55/56 or 255/256 bytes; a memo of the last verified record compared with `==`; comparing keys by their first 8 bytes; a builder that memoises the bytes it signs; recomputing the node id only when the public-key entry changed; trying SEC1/DER or keypair formats before the raw secret; word-wise zeroing that skips an unaligned tail; a minimum-size pre-check on the buffer; peeking at the next item inside a `log_enabled!` block"""
text = f"""You are helping to evaluate a verification framework for a Rust library by writing realistic *faulty* variants of that library (seeded bugs). Work ONLY inside the git worktree at {wt} (a checkout of the library `enr`: Rust implementation of Ethereum Node Records, EIP-778). Do not read or touch anything under /verif or /repo, and do not look for other copies of test harnesses; use only the library's own sources, its README and its own tests.

The property that your change must BREAK:

  Title: {p['title']}
  Statement: {p['statement']}
  Quantified over: {p['quantifier']['text']}

Task: produce {n} DIFFERENT source changes to the library (files under {wt}/src), each of which
  1. still compiles (`cargo build --offline` and `cargo build --offline --all-features`),
  2. still passes the library's existing test suite unedited (`cargo test --offline` in {wt}; all 38 unit tests + doctests must pass),
  3. breaks the property above on the real code, and
  4. is SUBTLE: it must need something specific to manifest — an unusual input, a boundary value, a multi-step sequence of operations, a particular key type / feature combination (features: k256 [default], ed25519, rust-secp256k1, serde [default]), a fault at a particular point, or two cooperating sites that each look fine alone. Do NOT produce changes that ordinary use or any trivial smoke test would expose at once (e.g. breaking every decode). Think of plausible refactoring mistakes, off-by-one errors, wrong operator, dropped check, swapped arguments, caching gone stale, wrong branch for one key type, etc. The changes should be of different kinds / in different places.

Make these faults HARD to find. Do not settle for the first idea (a dropped check, an off-by-one at an obvious limit such as 300 bytes or 2^64-1, a wrong branch for one key type). Prefer faults that depend on specific byte VALUES inside keys, values or signatures (for instance a signature whose r or s has a leading zero byte, a key containing a particular byte, a value of one exact length such as 55/56 bytes where the RLP header form changes), on state carried ACROSS calls or across records (thread-locals, statics, capacity/allocation reuse), on a particular history of three or more steps, on two unusual conditions holding at once, on the default feature set only (k256+serde, without ed25519 / rust-secp256k1), on numeric corner cases other than the obvious maxima, or whose failure is an abort / stack overflow / unbounded loop rather than an ordinary panic. Each fault must still be a plausible programming mistake and must still pass the existing tests.

Be inventive: besides the kinds listed above consider faults in rarely used public entry points and trait impls (Clone, Hash, Eq, IntoIterator, Display/Debug, From/AsRef conversions, EnrKeyUnambiguous::decode_public, EnrPublicKey methods called directly, Builder methods called repeatedly or in unusual orders), faults that only show when two DIFFERENT records or key types are used alternately, faults in error paths that leave hidden state behind, and faults whose symptom appears only several calls after the cause.

Also consider faults that depend on the BUILD or the ENVIRONMENT rather than on the input: behaviour that differs between debug and release profiles, that depends on whether a `log` logger is installed, on which optional cargo features are enabled, on the order in which different key types are used on one thread, on the number of threads that use the library at once, or on allocation capacity left over from earlier calls.

To keep the collection diverse, do NOT use any of these ideas, which other contributors have already submitted many times: {AVOID}. Find something else.

For each change write, under {wt}/out/<short-name>/ :
  - patch.diff : `git diff` of the change against HEAD (must apply with `git apply` on a clean checkout of HEAD),
  - a demonstration: an integration test file demo.rs (to be copied to tests/demo.rs; it may need features, say which) or a small example program, that FAILS with the change applied and PASSES without it. Actually run it both ways and record the outputs.
  - README.md : what the change is, why it breaks the property, exactly what is needed for it to manifest, which features the demo needs, and the commands you ran with their results (existing tests pass with the change; demo fails with it, passes without it).

Practical notes: the sandbox has no network; always pass --offline to cargo (or set CARGO_NET_OFFLINE=true). The worktree has its own target directory; builds take ~20-60 s. Dev-dependencies available: serde_json, secp256k1 (with rand), alloy-rlp (derive), hex, rand, k256, ed25519-dalek are reachable through the crate's re-exports (enr::k256, enr::ed25519_dalek, enr::secp256k1). The crate also has an off-by-default cargo feature `verif-hooks` that re-exports `enr::SigningError` and adds `SigningError::verif_new(msg: &str)`, so that a demo can implement its own `EnrKey` (for example a signer that fails on its n-th call, or a scheme with variable-length signatures); use it if you need it. When you are done, restore the source tree to HEAD (`git -C {wt} checkout -- src Cargo.toml; rm -f {wt}/tests/demo.rs`) leaving only the out/ directory, and finish with a short summary listing the out/<short-name> directories you produced. Do not commit anything.
"""
open(out, "w").write(text)
print(out, len(text))
