#!/usr/bin/env python3
"""print violation signatures (and first detail) of a property's last run"""
import json,sys,glob,os
prop=sys.argv[1]
ev=json.load(open('/verif/evidence/%s.json'%prop))
for s,n in sorted(ev['coverage'].get('violation_signatures',{}).items()): print(n,s)
for f in sorted(glob.glob('/verif/replay/%s/*.json'%prop))[:int(sys.argv[2]) if len(sys.argv)>2 else 0]:
    w=json.load(open(f)); print('--',w['sig']); print('   ',w['detail'][:600])
