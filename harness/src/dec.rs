//! Uniform, panic-contained access to the decoding entry points of every key type.

use crate::keys::{KeyKind, ToyKey};
use crate::obs::{observe, Obs};
use crate::refimpl::decode::KT;
use crate::util::{guard, thread_cpu_ns};
use alloy_rlp::Decodable;
use enr::{Enr, EnrKey};

pub struct DecOut {
    /// Ok(observation) or Err(error text)
    pub res: Result<Obs, String>,
    /// bytes left in the buffer after the call (decode entry only)
    pub remaining: usize,
    /// panic message if the call (or observing its result) panicked
    pub panic: Option<String>,
    pub cpu_ns: u64,
}

fn finish<K: EnrKey>(r: Result<Result<(Enr<K>, usize), String>, String>, t0: u64) -> DecOut {
    let cpu_ns = thread_cpu_ns().saturating_sub(t0);
    match r {
        Err(p) => DecOut { res: Err("panic".into()), remaining: 0, panic: Some(p), cpu_ns },
        Ok(Err(e)) => DecOut { res: Err(e), remaining: 0, panic: None, cpu_ns },
        Ok(Ok((e, rem))) => match observe(&e) {
            Ok(o) => DecOut { res: Ok(o), remaining: rem, panic: None, cpu_ns },
            Err(p) => DecOut { res: Err("panic-in-observe".into()), remaining: rem, panic: Some(p), cpu_ns },
        },
    }
}

pub fn decode_as<K: EnrKey>(buf: &[u8]) -> DecOut {
    let t0 = thread_cpu_ns();
    let r = guard(|| {
        let mut b = buf;
        match Enr::<K>::decode(&mut b) {
            Ok(e) => Ok((e, b.len())),
            Err(e) => Err(format!("{e:?}")),
        }
    });
    finish(r, t0)
}

pub fn parse_as<K: EnrKey>(s: &str) -> DecOut {
    let t0 = thread_cpu_ns();
    let r = guard(|| s.parse::<Enr<K>>().map(|e| (e, 0)));
    finish(r, t0)
}

pub fn json_as<K: EnrKey>(s: &str) -> DecOut {
    let t0 = thread_cpu_ns();
    let r = guard(|| serde_json::from_str::<Enr<K>>(s).map(|e| (e, 0)).map_err(|e| e.to_string()));
    finish(r, t0)
}

/// The other ways a JSON document reaches `Deserialize`: an owned `Value`, a reader, and the same
/// string with one character written as a \u escape (which forces an owned string).
pub fn json_variants_as<K: EnrKey>(doc: &str) -> Vec<(&'static str, DecOut)> {
    let mut out = Vec::new();
    let t0 = thread_cpu_ns();
    let r = guard(|| {
        let v: serde_json::Value = serde_json::from_str(doc).map_err(|e| e.to_string())?;
        serde_json::from_value::<Enr<K>>(v).map(|e| (e, 0)).map_err(|e| e.to_string())
    });
    out.push(("json-from_value", finish(r, t0)));
    let r = guard(|| serde_json::from_reader::<_, Enr<K>>(doc.as_bytes()).map(|e| (e, 0)).map_err(|e| e.to_string()));
    out.push(("json-from_reader", finish(r, t0)));
    // the JSON string handed over as an OWNED String with far more capacity than length (built by pushes).
    // (Deserializers other than serde_json's are outside C12/C16, which speak of the JSON form: serde's own
    // StrDeserializer cannot drive a derived newtype visitor at all — NodeId's — so they are not used as oracles.)
    if let Ok(serde_json::Value::String(body)) = serde_json::from_str::<serde_json::Value>(doc) {
        let roomy = || {
            let mut s = String::with_capacity(body.len() + 4096);
            for ch in body.chars() {
                s.push(ch);
            }
            s
        };
        let r = guard(|| serde_json::from_value::<Enr<K>>(serde_json::Value::String(roomy())).map(|e| (e, 0)).map_err(|e| e.to_string()));
        out.push(("json-from_value-roomy-string", finish(r, t0)));
    }
    if doc.len() > 3 && doc.starts_with('"') {
        // escape the first character of the string body
        let first = doc[1..].chars().next().unwrap();
        let escaped = format!("\"\\u{:04x}{}", first as u32, &doc[1 + first.len_utf8()..]);
        if (first as u32) < 0x10000 {
            let r = guard(|| serde_json::from_str::<Enr<K>>(&escaped).map(|e| (e, 0)).map_err(|e| e.to_string()));
            out.push(("json-escaped", finish(r, t0)));
        }
    }
    out
}

/// `Vec<Enr<K>>::decode` of an RLP list of records.
pub fn list_as<K: EnrKey>(buf: &[u8]) -> (Result<Vec<Obs>, String>, usize, Option<String>) {
    let r = guard(|| {
        let mut b = buf;
        match Vec::<Enr<K>>::decode(&mut b) {
            Ok(v) => Ok((v, b.len())),
            Err(e) => Err(format!("{e:?}")),
        }
    });
    match r {
        Err(p) => (Err("panic".into()), 0, Some(p)),
        Ok(Err(e)) => (Err(e), 0, None),
        Ok(Ok((v, rem))) => {
            let mut out = Vec::new();
            for e in &v {
                match observe(e) {
                    Ok(o) => out.push(o),
                    Err(p) => return (Err("panic-in-observe".into()), rem, Some(p)),
                }
            }
            (Ok(out), rem, None)
        }
    }
}

#[derive(Clone, Copy, Debug, PartialEq, Eq, serde::Serialize, serde::Deserialize, Hash)]
pub enum Entry {
    Decode,
    Parse,
    Json,
}

/// Key types available in this build, in a fixed order.
pub fn kts() -> Vec<KT> {
    let mut v = vec![KT::K256];
    #[cfg(feature = "libsecp")]
    v.push(KT::Libsecp);
    if cfg!(feature = "ed") {
        v.push(KT::Ed);
        v.push(KT::Comb);
    }
    v.push(KT::Toy);
    v
}

pub fn builtin_kts() -> Vec<KT> {
    kts().into_iter().filter(|k| *k != KT::Toy).collect()
}

macro_rules! dispatch {
    ($kt:expr, $f:ident, $arg:expr) => {
        match $kt {
            KT::K256 => $f::<<crate::keys::K256K as KeyKind>::K>($arg),
            #[cfg(feature = "libsecp")]
            KT::Libsecp => $f::<<crate::keys::LibsecpK as KeyKind>::K>($arg),
            #[cfg(not(feature = "libsecp"))]
            KT::Libsecp => panic!("libsecp256k1 key type not in this build"),
            KT::Ed => $f::<<crate::keys::EdK as KeyKind>::K>($arg),
            KT::Comb => $f::<<crate::keys::CombK as KeyKind>::K>($arg),
            KT::Toy => $f::<ToyKey>($arg),
        }
    };
}

/// `n` calls in a row without the accessor sweep (volume workloads): how many were accepted, or the first panic
/// with its index.
pub fn bulk_as<K: EnrKey>(arg: (usize, &[u8], &str, &str)) -> Result<[usize; 3], (usize, String)> {
    let (n, buf, text, doc) = arg;
    let mut acc = [0usize; 3];
    for i in 0..n {
        let r = guard(|| {
            let mut b = buf;
            (Enr::<K>::decode(&mut b).is_ok(), text.parse::<Enr<K>>().is_ok(), serde_json::from_str::<Enr<K>>(doc).is_ok())
        });
        match r {
            Ok((a, b, c)) => {
                acc[0] += a as usize;
                acc[1] += b as usize;
                acc[2] += c as usize;
            }
            Err(p) => return Err((i, p)),
        }
    }
    Ok(acc)
}
pub fn bulk_kt(kt: KT, n: usize, buf: &[u8], text: &str, doc: &str) -> Result<[usize; 3], (usize, String)> {
    dispatch!(kt, bulk_as, (n, buf, text, doc))
}

pub fn decode_kt(kt: KT, buf: &[u8]) -> DecOut {
    dispatch!(kt, decode_as, buf)
}
pub fn parse_kt(kt: KT, s: &str) -> DecOut {
    dispatch!(kt, parse_as, s)
}
pub fn json_kt(kt: KT, s: &str) -> DecOut {
    dispatch!(kt, json_as, s)
}
pub fn json_variants_kt(kt: KT, s: &str) -> Vec<(&'static str, DecOut)> {
    dispatch!(kt, json_variants_as, s)
}
pub fn list_kt(kt: KT, buf: &[u8]) -> (Result<Vec<Obs>, String>, usize, Option<String>) {
    dispatch!(kt, list_as, buf)
}
