//! Client-boundary observation of a record (`Obs`), the complete accessor sweep of C03, and the
//! typed-accessor snapshot judged by C14. Everything here only *reads* through the public API.

use crate::util::guard;
use alloy_rlp::Encodable;
use bytes::Bytes;
use enr::{Enr, EnrKey, EnrPublicKey, NodeId};
use serde::Serialize;
use std::collections::hash_map::DefaultHasher;
use std::hash::{Hash, Hasher};

#[derive(Clone, Debug, PartialEq, Eq, Serialize, Default)]
pub struct Typed {
    pub ip4: Option<[u8; 4]>,
    pub ip6: Option<[u8; 16]>,
    pub tcp4: Option<u16>,
    pub tcp6: Option<u16>,
    pub udp4: Option<u16>,
    pub udp6: Option<u16>,
    pub id: Option<String>,
    pub client: Option<(String, String, Option<String>)>,
    pub udp4_socket: Option<([u8; 4], u16)>,
    pub udp6_socket: Option<([u8; 16], u16)>,
    pub tcp4_socket: Option<([u8; 4], u16)>,
    pub tcp6_socket: Option<([u8; 16], u16)>,
    pub udp_reachable: bool,
    pub tcp_reachable: bool,
}

#[derive(Clone, Debug, PartialEq, Eq, Serialize)]
pub struct Obs {
    pub seq: u64,
    pub node_id: [u8; 32],
    pub sig: Vec<u8>,
    pub pairs: Vec<(Vec<u8>, Vec<u8>)>,
    pub enc: Vec<u8>,
    pub verify: bool,
    pub pubkey: Vec<u8>,
    pub pubkey_entry: Vec<u8>,
    pub node_id_from_pub: [u8; 32],
    pub size: usize,
    pub text: String,
    pub hash: u64,
    pub typed: Typed,
    pub pubkey_uncompressed: Vec<u8>,
    pub into_iter_pairs: Vec<(Vec<u8>, Vec<u8>)>,
}

impl Obs {
    pub fn get(&self, key: &[u8]) -> Option<&[u8]> {
        self.pairs.iter().find(|(k, _)| k == key).map(|(_, v)| v.as_slice())
    }
    /// the fields C06 compares byte for byte
    pub fn core(&self) -> (u64, &[u8; 32], &[u8], &[(Vec<u8>, Vec<u8>)], &[u8]) {
        (self.seq, &self.node_id, &self.sig, &self.pairs, &self.enc)
    }
    pub fn brief(&self) -> serde_json::Value {
        serde_json::json!({"seq": self.seq, "enc": crate::util::hex(&self.enc), "node_id": crate::util::hex(&self.node_id)})
    }
}

pub fn fixed_hash<T: Hash>(t: &T) -> u64 {
    let mut h = DefaultHasher::new();
    t.hash(&mut h);
    h.finish()
}

pub fn typed<K: EnrKey>(e: &Enr<K>) -> Typed {
    Typed {
        ip4: e.ip4().map(|i| i.octets()),
        ip6: e.ip6().map(|i| i.octets()),
        tcp4: e.tcp4(),
        tcp6: e.tcp6(),
        udp4: e.udp4(),
        udp6: e.udp6(),
        id: e.id(),
        client: e.client_info(),
        udp4_socket: e.udp4_socket().map(|s| (s.ip().octets(), s.port())),
        udp6_socket: e.udp6_socket().map(|s| (s.ip().octets(), s.port())),
        tcp4_socket: e.tcp4_socket().map(|s| (s.ip().octets(), s.port())),
        tcp6_socket: e.tcp6_socket().map(|s| (s.ip().octets(), s.port())),
        udp_reachable: e.is_udp_reachable(),
        tcp_reachable: e.is_tcp_reachable(),
    }
}

/// Take the complete observation. `Err(msg)` if any accessor panicked (a C03 event).
pub fn observe<K: EnrKey>(e: &Enr<K>) -> Result<Obs, String> {
    guard(|| {
        let pk = e.public_key();
        let pubkey = pk.encode().as_ref().to_vec();
        let entry = pk.enr_key();
        Obs {
            seq: e.seq(),
            node_id: e.node_id().raw(),
            sig: e.signature().to_vec(),
            pairs: e.iter().map(|(k, v)| (k.clone(), v.to_vec())).collect(),
            enc: alloy_rlp::encode(e),
            verify: e.verify(),
            pubkey,
            pubkey_entry: entry,
            node_id_from_pub: NodeId::from(pk).raw(),
            size: e.size(),
            text: e.to_base64(),
            hash: fixed_hash(e),
            typed: typed(e),
            pubkey_uncompressed: e.public_key().encode_uncompressed().as_ref().to_vec(),
            into_iter_pairs: e.clone().into_iter().map(|(k, v)| (k, v.to_vec())).collect(),
        }
    })
}

/// Cheap observation that cannot panic on a record whose public key entry is broken.
pub fn observe_core<K: EnrKey>(e: &Enr<K>) -> (u64, [u8; 32], Vec<u8>, Vec<(Vec<u8>, Vec<u8>)>, Vec<u8>) {
    (
        e.seq(),
        e.node_id().raw(),
        e.signature().to_vec(),
        e.iter().map(|(k, v)| (k.clone(), v.to_vec())).collect(),
        alloy_rlp::encode(e),
    )
}

/// C03: every public accessor, formatter, conversion on a record; returns the list of
/// (accessor, panic message) for those that panicked and the number of calls made.
#[allow(deprecated)]
pub fn sweep<K: EnrKey>(e: &Enr<K>) -> (u64, Vec<(&'static str, String)>) {
    let mut bad: Vec<(&'static str, String)> = Vec::new();
    let mut n = 0u64;
    macro_rules! call {
        ($name:expr, $body:expr) => {{
            n += 1;
            if let Err(m) = guard(|| {
                let _ = $body;
            }) {
                bad.push(($name, m));
            }
        }};
    }
    let mut keys: Vec<Vec<u8>> = match guard(|| e.iter().map(|(k, _)| k.clone()).collect::<Vec<_>>()) {
        Ok(k) => k,
        Err(m) => {
            bad.push(("iter", m));
            Vec::new()
        }
    };
    keys.push(b"absent-key".to_vec());
    for k in &keys {
        call!("get", e.get(k));
        call!("get_raw_rlp", e.get_raw_rlp(k));
        call!("get_decodable<u8>", e.get_decodable::<u8>(k));
        call!("get_decodable<u16>", e.get_decodable::<u16>(k));
        call!("get_decodable<u64>", e.get_decodable::<u64>(k));
        call!("get_decodable<Bytes>", e.get_decodable::<Bytes>(k));
        call!("get_decodable<String>", e.get_decodable::<String>(k));
        call!("get_decodable<Vec<Bytes>>", e.get_decodable::<Vec<Bytes>>(k));
        call!("get_decodable<Vec<Vec<Bytes>>>", e.get_decodable::<Vec<Vec<Bytes>>>(k));
    }
    call!("into_iter", e.clone().into_iter().count());
    call!("typed-getters", typed(e));
    call!("id", e.id());
    call!("client_info", e.client_info());
    call!("signature", e.signature().len());
    call!("seq", e.seq());
    call!("node_id", e.node_id());
    call!("public_key", e.public_key());
    call!("public_key.encode", e.public_key().encode().as_ref().len());
    call!("public_key.encode_uncompressed", e.public_key().encode_uncompressed().as_ref().len());
    call!("public_key.enr_key", e.public_key().enr_key());
    call!("verify", e.verify());
    call!("compare_content", e.compare_content(e));
    call!("to_base64", e.to_base64());
    call!("size", e.size());
    call!("Display", format!("{e}"));
    call!("Debug", format!("{e:?}"));
    call!("Debug#", format!("{e:#?}"));
    call!("serde_json::to_string", serde_json::to_string(e));
    call!("encode", alloy_rlp::encode(e));
    call!("length", e.length());
    call!("Clone", e.clone());
    call!("Eq", e == e);
    call!("Hash", fixed_hash(e));
    call!("NodeId::from(&enr)", NodeId::from(e));
    call!("NodeId::from(enr)", NodeId::from(e.clone()));
    call!("NodeId::from(public_key)", NodeId::from(e.public_key()));
    (n, bad)
}
