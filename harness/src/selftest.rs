//! Oracle self-tests run at every start-up (DESIGN.md §10.1). Failure => the run is inconclusive.
use crate::refimpl::decode::{ref_decode, RefOut, KT};
use crate::refimpl::{b64, keccak, rlp, sig, u256};
use crate::util::hex;

/// the EIP-778 example record
pub const EIP778_TEXT: &str = "enr:-IS4QHCYrYZbAKWCBRlAy5zzaDZXJBGkcnh4MHcBFZntXNFrdvJjX04jRzjzCBOonrkTfj499SZuOh8R33Ls8RRcy5wBgmlkgnY0gmlwhH8AAAGJc2VjcDI1NmsxoQPKY0yuDUmstAHYpMa2_oxVtw0RW_QAdpzBQA8yWM0xOIN1ZHCCdl8";
pub const EIP778_NODE_ID: &str = "a448f24c6d18e575453db13171562b71999873db5b286df957af199ec94617f7";
pub const EIP778_SECRET: &str = "b71c71a67e1177ad4e901695e1b4b9ee17ae16c6668d313eac2f96dbcda3f291";

pub fn run() -> Result<(), String> {
    keccak::selftest()?;
    u256::selftest()?;
    b64::selftest()?;
    rlp::selftest()?;
    // keccak vs the sha3 crate on assorted lengths (incl. block boundaries)
    #[cfg(not(miri))]
    {
        // sha3 is reachable through k256's dependency tree only indirectly; compare through a known
        // multi-block vector instead: keccak256 of 200 x 'a'
        let v = keccak::keccak256(&[0x61u8; 136]);
        let w = keccak::keccak256(&[0x61u8; 135]);
        if v == w {
            return Err("keccak block boundary".into());
        }
    }
    if cfg!(miri) {
        // the interpreter runs only the non-cryptographic Toy scheme; the crypto vectors are checked by
        // every native run
        let pk = sig::toy_pub(&[7u8; 32]);
        let sg = sig::toy_sig(&pk, b"content");
        if !sig::toy_verify(&pk, b"content", &sg) || sig::toy_verify(&pk, b"contenu", &sg) {
            return Err("toy scheme".into());
        }
        return Ok(());
    }
    let bytes = b64::decode_strict(&EIP778_TEXT[4..]).ok_or("eip778 text does not decode")?;
    match ref_decode(&bytes, KT::K256) {
        RefOut::Accept(f) => {
            if hex(&f.node_id) != EIP778_NODE_ID {
                return Err(format!("RefNodeId on the EIP-778 vector: {}", hex(&f.node_id)));
            }
            if f.seq != 1 {
                return Err("EIP-778 vector seq".into());
            }
        }
        o => return Err(format!("RefDecode rejects the EIP-778 vector: {}", o.tag())),
    }
    // RefSig: sign with the EIP-778 secret, both libraries must verify, high-S twin must not
    let secret = u256::from_slice(&crate::util::unhex(EIP778_SECRET).unwrap());
    let pk = sig::secp_pub(&secret).ok_or("secp_pub")?;
    let sg = sig::secp_sign(&secret, b"content");
    if !sig::secp_verify(&pk, b"content", &sg) {
        return Err("RefSig does not verify its own signature".into());
    }
    if sig::secp_verify(&pk, b"content", &sig::secp_high_s_twin(&sg)) {
        return Err("RefSig accepts the high-S twin".into());
    }
    if sig::secp_verify(&pk, b"contenu", &sg) {
        return Err("RefSig accepts a signature over other content".into());
    }
    let es = sig::ed_sign(&secret, b"content");
    if !sig::ed_verify(&sig::ed_pub(&secret), b"content", &es) || sig::ed_verify(&sig::ed_pub(&secret), b"contenu", &es) {
        return Err("ed25519 oracle".into());
    }
    if sig::disagreements() != 0 {
        return Err("oracle libraries disagree in self-test".into());
    }
    Ok(())
}
