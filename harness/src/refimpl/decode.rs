//! RefDecode (DESIGN.md §4.5): the statement of C02 as an executable, three-valued function.

use super::rlp;
use super::sig::{self, PubValidity, Scheme};
use serde::{Deserialize, Serialize};

/// Key type a record is read as (which public-key entries it looks at).
#[derive(Clone, Copy, Debug, PartialEq, Eq, Hash, Serialize, Deserialize, PartialOrd, Ord)]
pub enum KT {
    K256,
    Libsecp,
    Ed,
    Comb,
    Toy,
}

impl KT {
    pub fn name(self) -> &'static str {
        match self {
            KT::K256 => "k256",
            KT::Libsecp => "libsecp256k1",
            KT::Ed => "ed25519",
            KT::Comb => "combined",
            KT::Toy => "toy",
        }
    }
    pub fn schemes(self) -> &'static [Scheme] {
        match self {
            KT::K256 | KT::Libsecp => &[Scheme::Secp],
            KT::Ed => &[Scheme::Ed],
            KT::Comb => &[Scheme::Secp, Scheme::Ed],
            KT::Toy => &[Scheme::Toy],
        }
    }
    pub fn reads(self, s: Scheme) -> bool {
        self.schemes().contains(&s)
    }
}

#[derive(Clone, Debug, PartialEq, Eq)]
pub struct Fields {
    pub seq: u64,
    pub sig: Vec<u8>,
    /// (key, raw RLP value)
    pub pairs: Vec<(Vec<u8>, Vec<u8>)>,
    pub scheme: Scheme,
    pub pubkey: Vec<u8>,
    pub node_id: [u8; 32],
}

#[derive(Clone, Debug, PartialEq, Eq)]
pub enum RefOut {
    Accept(Box<Fields>),
    Reject(&'static str),
    /// region the property leaves open; excluded from the C02/C11 verdict
    Unspec(&'static str),
    /// the input is a complete item followed by more bytes (C13's subject, not C02's)
    NotOneItem(usize),
}

impl RefOut {
    pub fn tag(&self) -> &'static str {
        match self {
            RefOut::Accept(_) => "accept",
            RefOut::Reject(r) => r,
            RefOut::Unspec(r) => r,
            RefOut::NotOneItem(_) => "not-one-item",
        }
    }
}

enum Entry<'a> {
    Missing,
    NotString,
    Str(&'a [u8]),
}

/// Parse only the structure (no typing, no signature): (sig, seq, pairs) of one item.
pub fn structure(input: &[u8]) -> Option<(Vec<u8>, u64, Vec<(Vec<u8>, Vec<u8>)>)> {
    let h = rlp::header(input).ok()?;
    if !h.list {
        return None;
    }
    let fr = rlp::frames(&input[h.off..h.total()]).ok()?;
    if fr.len() < 2 || fr.len() % 2 != 0 || fr[0].0.list {
        return None;
    }
    let sig = fr[0].1[fr[0].0.off..].to_vec();
    let seq = rlp::as_uint(fr[1].1, 8)?;
    let mut pairs = Vec::new();
    for kv in fr[2..].chunks(2) {
        if kv[0].0.list {
            return None;
        }
        pairs.push((kv[0].1[kv[0].0.off..].to_vec(), kv[1].1.to_vec()));
    }
    Some((sig, seq, pairs))
}

pub fn ref_decode(input: &[u8], kt: KT) -> RefOut {
    use RefOut::*;
    let h = match rlp::header(input) {
        Ok(h) => h,
        Err(_) => return Reject("outer-frame"),
    };
    if h.total() < input.len() {
        return NotOneItem(h.total());
    }
    if !h.list {
        return Reject("outer-not-list");
    }
    if input.len() > 300 {
        return Reject("size");
    }
    let fr = match rlp::frames(&input[h.off..]) {
        Ok(f) => f,
        Err(_) => return Reject("item-frame"),
    };
    if fr.is_empty() {
        return Reject("empty-list");
    }
    if fr[0].0.list {
        return Reject("signature-not-string");
    }
    let sig_bytes = fr[0].1[fr[0].0.off..].to_vec();
    if fr.len() < 2 {
        return Reject("no-seq");
    }
    let seq = match rlp::as_uint(fr[1].1, 8) {
        Some(s) => s,
        None => return Reject("seq"),
    };
    let rest = &fr[2..];
    if rest.len() % 2 == 1 {
        return Reject("missing-value");
    }
    let mut unspec: Option<&'static str> = None;
    let mut pairs: Vec<(Vec<u8>, Vec<u8>)> = Vec::new();
    let mut has_id = false;
    let mut secp = Entry::Missing;
    let mut ed = Entry::Missing;
    let mut toy = Entry::Missing;
    let mut prev: Option<&[u8]> = None;
    for kv in rest.chunks(2) {
        let (kh, kraw) = kv[0];
        let (vh, vraw) = kv[1];
        if kh.list {
            return Reject("key-not-string");
        }
        let key = &kraw[kh.off..];
        if let Some(p) = prev {
            if p == key {
                return Reject("duplicate-key");
            }
            if p > key {
                return Reject("unsorted-keys");
            }
        }
        prev = Some(key);
        let vstr = if vh.list { None } else { Some(&vraw[vh.off..]) };
        match key {
            b"id" => {
                if vstr != Some(b"v4") {
                    return Reject("id");
                }
                has_id = true;
            }
            b"tcp" | b"tcp6" | b"udp" | b"udp6" => {
                if rlp::as_uint(vraw, 2).is_none() {
                    return Reject("port");
                }
            }
            b"ip" => {
                if vstr.map(|s| s.len()) != Some(4) {
                    return Reject("ip");
                }
            }
            b"ip6" => {
                if vstr.map(|s| s.len()) != Some(16) {
                    return Reject("ip6");
                }
            }
            b"secp256k1" => {
                secp = match vstr {
                    Some(s) => Entry::Str(s),
                    None => Entry::NotString,
                }
            }
            b"ed25519" => {
                ed = match vstr {
                    Some(s) => Entry::Str(s),
                    None => Entry::NotString,
                }
            }
            _ => {
                if key == b"toy" && kt == KT::Toy {
                    toy = match vstr {
                        Some(s) => Entry::Str(s),
                        None => Entry::NotString,
                    };
                } else if vh.list && !rlp::wellformed_deep(vraw) {
                    unspec = Some("list-inner-malformed");
                }
            }
        }
        pairs.push((key.to_vec(), vraw.to_vec()));
    }
    if !has_id {
        return Reject("no-id");
    }
    // choose the public-key entry for the key type
    let judge = |e: &Entry, scheme: Scheme| -> Result<Vec<u8>, RefOut> {
        match e {
            Entry::Missing => Err(Reject("no-pubkey")),
            Entry::NotString => Err(Reject("pubkey-not-string")),
            Entry::Str(s) => match sig::pub_validity(scheme, s) {
                PubValidity::Valid(_) => Ok(s.to_vec()),
                PubValidity::Invalid => Err(Reject("pubkey-invalid")),
                PubValidity::Unspec => Err(Unspec("pubkey-open-encoding")),
            },
        }
    };
    let chosen: Result<(Scheme, Vec<u8>), RefOut> = match kt {
        KT::K256 | KT::Libsecp => judge(&secp, Scheme::Secp).map(|p| (Scheme::Secp, p)),
        KT::Ed => judge(&ed, Scheme::Ed).map(|p| (Scheme::Ed, p)),
        KT::Toy => judge(&toy, Scheme::Toy).map(|p| (Scheme::Toy, p)),
        KT::Comb => match judge(&secp, Scheme::Secp) {
            Ok(p) => Ok((Scheme::Secp, p)),
            Err(Unspec(u)) => Err(Unspec(u)),
            Err(_) => judge(&ed, Scheme::Ed).map(|p| (Scheme::Ed, p)),
        },
    };
    let (scheme, pubkey) = match chosen {
        Ok(c) => c,
        Err(e) => return e,
    };
    // a non-string entry of a scheme that was not chosen: the statement is silent
    let other_nonstring = |e: &Entry, s: Scheme| matches!(e, Entry::NotString) && s != scheme;
    if other_nonstring(&secp, Scheme::Secp) || other_nonstring(&ed, Scheme::Ed) {
        unspec = Some("other-scheme-entry-not-string");
    }
    if let Some(u) = unspec {
        return Unspec(u);
    }
    // signature over [seq, k1, v1, ...] = everything after the signature item
    let after_sig = &input[h.off + fr[0].0.total()..];
    let content = rlp::enc_list_payload(after_sig);
    if !sig::verify(scheme, &pubkey, &content, &sig_bytes) {
        return Reject("signature");
    }
    let node_id = match sig::node_id(scheme, &pubkey) {
        Some(n) => n,
        None => return Reject("pubkey-invalid"),
    };
    Accept(Box::new(Fields { seq, sig: sig_bytes, pairs, scheme, pubkey, node_id }))
}
