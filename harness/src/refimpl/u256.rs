//! Minimal big-endian 256-bit helpers for the signature-range arithmetic of RefSig.
pub type U256 = [u8; 32];

pub const N: U256 = [
    0xff, 0xff, 0xff, 0xff, 0xff, 0xff, 0xff, 0xff, 0xff, 0xff, 0xff, 0xff, 0xff, 0xff, 0xff, 0xfe,
    0xba, 0xae, 0xdc, 0xe6, 0xaf, 0x48, 0xa0, 0x3b, 0xbf, 0xd2, 0x5e, 0x8c, 0xd0, 0x36, 0x41, 0x41,
];
/// floor(n / 2)
pub const HALF_N: U256 = [
    0x7f, 0xff, 0xff, 0xff, 0xff, 0xff, 0xff, 0xff, 0xff, 0xff, 0xff, 0xff, 0xff, 0xff, 0xff, 0xff,
    0x5d, 0x57, 0x6e, 0x73, 0x57, 0xa4, 0x50, 0x1d, 0xdf, 0xe9, 0x2f, 0x46, 0x68, 0x1b, 0x20, 0xa0,
];
pub const P: U256 = [
    0xff, 0xff, 0xff, 0xff, 0xff, 0xff, 0xff, 0xff, 0xff, 0xff, 0xff, 0xff, 0xff, 0xff, 0xff, 0xff,
    0xff, 0xff, 0xff, 0xff, 0xff, 0xff, 0xff, 0xff, 0xff, 0xff, 0xff, 0xfe, 0xff, 0xff, 0xfc, 0x2f,
];
pub const ZERO: U256 = [0u8; 32];

pub fn from_slice(b: &[u8]) -> U256 {
    let mut o = [0u8; 32];
    o.copy_from_slice(b);
    o
}
pub fn lt(a: &U256, b: &U256) -> bool {
    a < b // lexicographic on big-endian bytes == numeric
}
pub fn is_zero(a: &U256) -> bool {
    a.iter().all(|&x| x == 0)
}
/// a - b (requires a >= b)
pub fn sub(a: &U256, b: &U256) -> U256 {
    let mut o = [0u8; 32];
    let mut borrow = 0i16;
    for i in (0..32).rev() {
        let mut d = a[i] as i16 - b[i] as i16 - borrow;
        if d < 0 {
            d += 256;
            borrow = 1;
        } else {
            borrow = 0;
        }
        o[i] = d as u8;
    }
    o
}
/// a + small
pub fn add_small(a: &U256, v: u8) -> U256 {
    let mut o = *a;
    let mut c = v as u16;
    for i in (0..32).rev() {
        let s = o[i] as u16 + c;
        o[i] = s as u8;
        c = s >> 8;
    }
    o
}
pub fn selftest() -> Result<(), String> {
    // 2*HALF_N + 1 == N
    let twice = {
        let mut o = [0u8; 32];
        let mut c = 0u16;
        for i in (0..32).rev() {
            let s = (HALF_N[i] as u16) * 2 + c;
            o[i] = s as u8;
            c = s >> 8;
        }
        o
    };
    if add_small(&twice, 1) != N {
        return Err("HALF_N".into());
    }
    if sub(&N, &HALF_N) != add_small(&HALF_N, 1) {
        return Err("sub".into());
    }
    Ok(())
}
