//! RefRLP: own RLP encoder and *strict* decoder (canonical single byte, minimal long lengths,
//! long form only for >= 56, exact consumption). Independent of `alloy-rlp`.

#[derive(Clone, Debug, PartialEq, Eq, Hash, serde::Serialize, serde::Deserialize)]
pub enum Item {
    /// byte string
    S(Vec<u8>),
    /// list
    L(Vec<Item>),
    /// verbatim bytes (used by generators to inject arbitrary / non-canonical encodings)
    R(Vec<u8>),
}

fn enc_len(len: usize, off: u8, out: &mut Vec<u8>) {
    if len < 56 {
        out.push(off + len as u8);
    } else {
        let be = (len as u64).to_be_bytes();
        let skip = be.iter().take_while(|&&b| b == 0).count();
        out.push(off + 55 + (8 - skip) as u8);
        out.extend_from_slice(&be[skip..]);
    }
}

pub fn enc_str(b: &[u8]) -> Vec<u8> {
    let mut out = Vec::with_capacity(b.len() + 3);
    if b.len() == 1 && b[0] < 0x80 {
        out.push(b[0]);
    } else {
        enc_len(b.len(), 0x80, &mut out);
        out.extend_from_slice(b);
    }
    out
}

pub fn uint_bytes(v: u64) -> Vec<u8> {
    let be = v.to_be_bytes();
    let skip = be.iter().take_while(|&&b| b == 0).count();
    be[skip..].to_vec()
}

pub fn enc_uint(v: u64) -> Vec<u8> {
    enc_str(&uint_bytes(v))
}

pub fn enc_list_payload(payload: &[u8]) -> Vec<u8> {
    let mut out = Vec::with_capacity(payload.len() + 3);
    enc_len(payload.len(), 0xc0, &mut out);
    out.extend_from_slice(payload);
    out
}

pub fn list_header_len(payload_len: usize) -> usize {
    if payload_len < 56 {
        1
    } else {
        1 + uint_bytes(payload_len as u64).len()
    }
}

pub fn enc_item(it: &Item) -> Vec<u8> {
    match it {
        Item::S(b) => enc_str(b),
        Item::R(b) => b.clone(),
        Item::L(items) => {
            let mut p = Vec::new();
            for i in items {
                p.extend_from_slice(&enc_item(i));
            }
            enc_list_payload(&p)
        }
    }
}

pub fn enc_items(items: &[Item]) -> Vec<u8> {
    let mut p = Vec::new();
    for i in items {
        p.extend_from_slice(&enc_item(i));
    }
    p
}

#[derive(Clone, Copy, Debug, PartialEq, Eq)]
pub enum RlpErr {
    Empty,
    Short,
    NonCanonicalSingle,
    NonCanonicalLen,
    LeadingZeroLen,
    LenOverflow,
}

#[derive(Clone, Copy, Debug)]
pub struct Hdr {
    pub list: bool,
    pub off: usize,
    pub len: usize,
}
impl Hdr {
    pub fn total(&self) -> usize {
        self.off + self.len
    }
}

/// Strictly parse the header of the item at the start of `b`; checks the whole item is present.
pub fn header(b: &[u8]) -> Result<Hdr, RlpErr> {
    let f = *b.first().ok_or(RlpErr::Empty)?;
    let (list, off, len) = match f {
        0x00..=0x7f => (false, 0usize, 1usize),
        0x80..=0xb7 => {
            let len = (f - 0x80) as usize;
            if len == 1 {
                let v = *b.get(1).ok_or(RlpErr::Short)?;
                if v < 0x80 {
                    return Err(RlpErr::NonCanonicalSingle);
                }
            }
            (false, 1, len)
        }
        0xb8..=0xbf | 0xf8..=0xff => {
            let list = f >= 0xf8;
            let ll = (f - if list { 0xf7 } else { 0xb7 }) as usize;
            if b.len() < 1 + ll {
                return Err(RlpErr::Short);
            }
            let lb = &b[1..1 + ll];
            if lb[0] == 0 {
                return Err(RlpErr::LeadingZeroLen);
            }
            let mut len: u64 = 0;
            for &x in lb {
                len = len.checked_mul(256).ok_or(RlpErr::LenOverflow)? + x as u64;
            }
            if len < 56 {
                return Err(RlpErr::NonCanonicalLen);
            }
            if len > (1u64 << 40) {
                return Err(RlpErr::LenOverflow);
            }
            (list, 1 + ll, len as usize)
        }
        0xc0..=0xf7 => (true, 1, (f - 0xc0) as usize),
    };
    if b.len() < off + len {
        return Err(RlpErr::Short);
    }
    Ok(Hdr { list, off, len })
}

/// Split a payload into its top-level item frames (strict headers; does not descend).
pub fn frames(mut p: &[u8]) -> Result<Vec<(Hdr, &[u8])>, RlpErr> {
    let mut out = Vec::new();
    while !p.is_empty() {
        let h = header(p)?;
        out.push((h, &p[..h.total()]));
        p = &p[h.total()..];
    }
    Ok(out)
}

/// Is `raw` exactly one well-formed item, recursively?  (Iterative: inputs may nest arbitrarily deep.)
pub fn wellformed_deep(raw: &[u8]) -> bool {
    match header(raw) {
        Ok(h) if h.total() == raw.len() => {
            if !h.list {
                return true;
            }
            // work list of list payloads still to be split into items
            let mut todo: Vec<&[u8]> = vec![&raw[h.off..]];
            while let Some(mut p) = todo.pop() {
                while !p.is_empty() {
                    let ih = match header(p) {
                        Ok(ih) => ih,
                        Err(_) => return false,
                    };
                    if ih.list {
                        todo.push(&p[ih.off..ih.total()]);
                    }
                    p = &p[ih.total()..];
                }
            }
            true
        }
        _ => false,
    }
}

/// `depth` nested lists around an empty list: c0, c1 c0, c2 c1 c0, ...
pub fn nested_lists(depth: u32) -> Vec<u8> {
    // build from the inside out, prepending headers: collect headers then reverse
    let mut headers: Vec<Vec<u8>> = Vec::with_capacity(depth as usize + 1);
    let mut len = 0usize;
    for _ in 0..=depth {
        let mut h = Vec::new();
        if len < 56 {
            h.push(0xc0 + len as u8);
        } else {
            let lb = uint_bytes(len as u64);
            h.push(0xf7 + lb.len() as u8);
            h.extend_from_slice(&lb);
        }
        len += h.len();
        headers.push(h);
    }
    let mut out = Vec::with_capacity(len);
    for h in headers.iter().rev() {
        out.extend_from_slice(h);
    }
    out
}

/// Is `raw` exactly one item with a strict header (not descending)?
pub fn single_item(raw: &[u8]) -> Option<Hdr> {
    match header(raw) {
        Ok(h) if h.total() == raw.len() => Some(h),
        _ => None,
    }
}

/// Payload of a byte-string item `raw` (exactly one item), None if it is a list / malformed.
pub fn as_str(raw: &[u8]) -> Option<&[u8]> {
    let h = single_item(raw)?;
    if h.list {
        None
    } else {
        Some(&raw[h.off..])
    }
}

/// Canonical unsigned integer of at most `max_bytes` bytes from an item.
pub fn as_uint(raw: &[u8], max_bytes: usize) -> Option<u64> {
    let s = as_str(raw)?;
    if s.len() > max_bytes || s.first() == Some(&0) {
        return None;
    }
    let mut v = 0u64;
    for &b in s {
        v = (v << 8) | b as u64;
    }
    Some(v)
}

/// list of byte strings
pub fn as_str_list(raw: &[u8]) -> Option<Vec<Vec<u8>>> {
    let h = single_item(raw)?;
    if !h.list {
        return None;
    }
    let fr = frames(&raw[h.off..]).ok()?;
    let mut out = Vec::new();
    for (fh, r) in fr {
        if fh.list {
            return None;
        }
        out.push(r[fh.off..].to_vec());
    }
    Some(out)
}

pub fn selftest() -> Result<(), String> {
    let e = |c: bool, m: &str| if c { Ok(()) } else { Err(format!("rlp selftest: {m}")) };
    e(enc_str(b"dog") == [0x83, b'd', b'o', b'g'], "dog")?;
    e(enc_str(&[]) == [0x80], "empty")?;
    e(enc_str(&[0x0f]) == [0x0f], "single")?;
    e(enc_str(&[0x80]) == [0x81, 0x80], "0x80")?;
    e(enc_uint(0) == [0x80], "uint 0")?;
    e(enc_uint(1024) == [0x82, 0x04, 0x00], "uint 1024")?;
    e(enc_list_payload(&[]) == [0xc0], "empty list")?;
    let long = vec![7u8; 56];
    let el = enc_str(&long);
    e(el[0] == 0xb8 && el[1] == 56 && el.len() == 58, "long str")?;
    e(header(&el).map(|h| (h.off, h.len)) == Ok((2, 56)), "hdr long")?;
    e(matches!(header(&[0x81, 0x05]), Err(RlpErr::NonCanonicalSingle)), "noncanon single")?;
    e(matches!(header(&[0xb8, 0x05, 1, 2, 3, 4, 5]), Err(RlpErr::NonCanonicalLen)), "noncanon len")?;
    e(matches!(header(&[0xb9, 0x00, 0x38]), Err(RlpErr::LeadingZeroLen)), "leading zero len")?;
    e(matches!(header(&[0x83, 1, 2]), Err(RlpErr::Short)), "short")?;
    e(as_uint(&[0x82, 0x00, 0x01], 2).is_none(), "uint leading zero")?;
    e(as_uint(&[0x00], 2).is_none(), "uint 0x00")?;
    e(as_uint(&[0x80], 2) == Some(0), "uint zero")?;
    e(as_uint(&[0x82, 0xff, 0xff], 2) == Some(65535), "uint max16")?;
    e(as_uint(&[0x83, 1, 0, 0], 2).is_none(), "uint too long")?;
    e(wellformed_deep(&[0xc3, 0x01, 0xc1, 0x80]), "deep ok")?;
    e(!wellformed_deep(&[0xc2, 0x83, 0x01]), "deep bad")?;
    e(nested_lists(0) == [0xc0] && nested_lists(2) == [0xc2, 0xc1, 0xc0], "nested small")?;
    let deep = nested_lists(3000);
    e(wellformed_deep(&deep) && single_item(&deep).is_some(), "nested deep")?;
    Ok(())
}
impl PartialEq for Hdr {
    fn eq(&self, o: &Self) -> bool {
        self.list == o.list && self.off == o.off && self.len == o.len
    }
}
