//! Own base64url (RFC 4648 §5), no padding, strict decoding (canonical trailing bits).
const ALPHA: &[u8; 64] = b"ABCDEFGHIJKLMNOPQRSTUVWXYZabcdefghijklmnopqrstuvwxyz0123456789-_";

pub fn encode(data: &[u8]) -> String {
    let mut out = String::with_capacity((data.len() * 4 + 2) / 3);
    for c in data.chunks(3) {
        let b = [c[0], *c.get(1).unwrap_or(&0), *c.get(2).unwrap_or(&0)];
        let n = ((b[0] as u32) << 16) | ((b[1] as u32) << 8) | b[2] as u32;
        out.push(ALPHA[(n >> 18) as usize & 63] as char);
        out.push(ALPHA[(n >> 12) as usize & 63] as char);
        if c.len() > 1 {
            out.push(ALPHA[(n >> 6) as usize & 63] as char);
        }
        if c.len() > 2 {
            out.push(ALPHA[n as usize & 63] as char);
        }
    }
    out
}

fn val(c: u8) -> Option<u32> {
    ALPHA.iter().position(|&a| a == c).map(|p| p as u32)
}

/// Strict: only alphabet characters, no padding, length % 4 != 1, unused trailing bits zero.
pub fn decode_strict(s: &str) -> Option<Vec<u8>> {
    let b = s.as_bytes();
    if b.len() % 4 == 1 {
        return None;
    }
    let mut out = Vec::with_capacity(b.len() * 3 / 4);
    for c in b.chunks(4) {
        let mut n = 0u32;
        for (i, &ch) in c.iter().enumerate() {
            n |= val(ch)? << (18 - 6 * i as u32);
        }
        match c.len() {
            4 => out.extend_from_slice(&[(n >> 16) as u8, (n >> 8) as u8, n as u8]),
            3 => {
                if n & 0xff != 0 {
                    return None;
                }
                out.extend_from_slice(&[(n >> 16) as u8, (n >> 8) as u8]);
            }
            2 => {
                if n & 0xffff != 0 {
                    return None;
                }
                out.push((n >> 16) as u8);
            }
            _ => return None,
        }
    }
    Some(out)
}

pub fn selftest() -> Result<(), String> {
    let cases: [(&[u8], &str); 5] =
        [(b"", ""), (b"f", "Zg"), (b"fo", "Zm8"), (b"foo", "Zm9v"), (&[0xfb, 0xff], "-_8")];
    for (d, e) in cases {
        if encode(d) != e || decode_strict(e).as_deref() != Some(d) {
            return Err(format!("b64 vector {e}"));
        }
    }
    if decode_strict("Zh").is_some() || decode_strict("Zg==").is_some() || decode_strict("Z").is_some() {
        return Err("b64 strictness".into());
    }
    Ok(())
}
