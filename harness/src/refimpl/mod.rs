//! Independent reference components (DESIGN.md §4). Nothing in here calls into `enr`.
pub mod b64;
pub mod decode;
pub mod keccak;
pub mod rlp;
pub mod sig;
pub mod u256;
