//! RefKeccak: Keccak-256 (original Keccak padding 0x01, not SHA3's 0x06), written from the
//! specification. Independent of the `sha3` crate `enr` uses.

const RC: [u64; 24] = [
    0x0000000000000001, 0x0000000000008082, 0x800000000000808a, 0x8000000080008000,
    0x000000000000808b, 0x0000000080000001, 0x8000000080008081, 0x8000000000008009,
    0x000000000000008a, 0x0000000000000088, 0x0000000080008009, 0x000000008000000a,
    0x000000008000808b, 0x800000000000008b, 0x8000000000008089, 0x8000000000008003,
    0x8000000000008002, 0x8000000000000080, 0x000000000000800a, 0x800000008000000a,
    0x8000000080008081, 0x8000000000008080, 0x0000000080000001, 0x8000000080008008,
];
const ROTC: [u32; 24] = [
    1, 3, 6, 10, 15, 21, 28, 36, 45, 55, 2, 14, 27, 41, 56, 8, 25, 43, 62, 18, 39, 61, 20, 44,
];
const PILN: [usize; 24] = [
    10, 7, 11, 17, 18, 3, 5, 16, 8, 21, 24, 4, 15, 23, 19, 13, 12, 2, 20, 14, 22, 9, 6, 1,
];

fn keccak_f(st: &mut [u64; 25]) {
    for rc in RC.iter() {
        let mut bc = [0u64; 5];
        for i in 0..5 {
            bc[i] = st[i] ^ st[i + 5] ^ st[i + 10] ^ st[i + 15] ^ st[i + 20];
        }
        for i in 0..5 {
            let t = bc[(i + 4) % 5] ^ bc[(i + 1) % 5].rotate_left(1);
            for j in (0..25).step_by(5) {
                st[j + i] ^= t;
            }
        }
        let mut t = st[1];
        for i in 0..24 {
            let j = PILN[i];
            let b = st[j];
            st[j] = t.rotate_left(ROTC[i]);
            t = b;
        }
        for j in (0..25).step_by(5) {
            let mut row = [0u64; 5];
            row.copy_from_slice(&st[j..j + 5]);
            for i in 0..5 {
                st[j + i] ^= (!row[(i + 1) % 5]) & row[(i + 2) % 5];
            }
        }
        st[0] ^= rc;
    }
}

pub fn keccak256(data: &[u8]) -> [u8; 32] {
    const RATE: usize = 136;
    let mut st = [0u64; 25];
    let mut absorb = |block: &[u8], st: &mut [u64; 25]| {
        for i in 0..RATE / 8 {
            let mut w = [0u8; 8];
            w.copy_from_slice(&block[i * 8..i * 8 + 8]);
            st[i] ^= u64::from_le_bytes(w);
        }
        keccak_f(st);
    };
    let mut chunks = data.chunks_exact(RATE);
    for c in &mut chunks {
        absorb(c, &mut st);
    }
    let rem = chunks.remainder();
    let mut last = [0u8; RATE];
    last[..rem.len()].copy_from_slice(rem);
    last[rem.len()] ^= 0x01;
    last[RATE - 1] ^= 0x80;
    absorb(&last, &mut st);
    let mut out = [0u8; 32];
    for i in 0..4 {
        out[i * 8..i * 8 + 8].copy_from_slice(&st[i].to_le_bytes());
    }
    out
}

pub fn selftest() -> Result<(), String> {
    let h = |b: &[u8]| crate::util::hex(&keccak256(b));
    if h(b"") != "c5d2460186f7233c927e7db2dcc703c0e500b653ca82273b7bfad8045d85a470" {
        return Err("keccak256(\"\") vector".into());
    }
    if h(b"abc") != "4e03657aea45a94fc7d47ba826c8d667c0d1e6e33a64a036ec44f58fa12d6c45" {
        return Err("keccak256(\"abc\") vector".into());
    }
    // multi-block path: 200 x 'a' (two absorbs); value cross-checked at start-up against the
    // sha3 crate by `selftest::run` (which also checks the EIP-778 node-id vector).
    Ok(())
}
