//! RefSig / RefPub / RefNodeId (DESIGN.md §4.3, §4.4): signing and verification done by calling
//! the crypto crates directly (never through `enr`'s `EnrKey` / `EnrPublicKey` impls), through
//! both secp256k1 libraries where available, which must agree with each other.

use super::keccak::keccak256;
use super::u256;
use k256::ecdsa::signature::hazmat::{PrehashSigner, PrehashVerifier};
use k256::elliptic_curve::sec1::ToEncodedPoint;
use serde::{Deserialize, Serialize};
use std::sync::atomic::{AtomicU64, Ordering};

/// number of times the oracle's own two libraries disagreed (=> run is inconclusive)
pub static ORACLE_DISAGREE: AtomicU64 = AtomicU64::new(0);

#[derive(Clone, Copy, Debug, PartialEq, Eq, Hash, Serialize, Deserialize, PartialOrd, Ord)]
pub enum Scheme {
    Secp,
    Ed,
    Toy,
}

impl Scheme {
    pub fn enr_key(self) -> &'static [u8] {
        match self {
            Scheme::Secp => b"secp256k1",
            Scheme::Ed => b"ed25519",
            Scheme::Toy => b"toy",
        }
    }
    pub fn name(self) -> &'static str {
        match self {
            Scheme::Secp => "secp",
            Scheme::Ed => "ed",
            Scheme::Toy => "toy",
        }
    }
}

// ---------------------------------------------------------------------------------------------
// Toy scheme: non-cryptographic, variable-length signatures (40..=89 bytes; by key also 1..8 and 300..349), cheap under Miri.
// ---------------------------------------------------------------------------------------------
fn fnv(mut h: u64, data: &[u8]) -> u64 {
    for &b in data {
        h ^= b as u64;
        h = h.wrapping_mul(0x100000001b3);
    }
    h
}
fn splitmix(x: &mut u64) -> u64 {
    *x = x.wrapping_add(0x9e3779b97f4a7c15);
    let mut z = *x;
    z = (z ^ (z >> 30)).wrapping_mul(0xbf58476d1ce4e5b9);
    z = (z ^ (z >> 27)).wrapping_mul(0x94d049bb133111eb);
    z ^ (z >> 31)
}
pub fn toy_pub(secret: &[u8; 32]) -> [u8; 32] {
    let mut s = fnv(0xcbf29ce484222325, secret);
    let mut out = [0u8; 32];
    for c in out.chunks_mut(8) {
        c.copy_from_slice(&splitmix(&mut s).to_le_bytes());
    }
    out
}
pub fn toy_sig(public: &[u8], msg: &[u8]) -> Vec<u8> {
    let h = fnv(fnv(0xcbf29ce484222325, public), msg);
    // keys whose public key starts with a byte >= 0xf0 make LONG signatures (300..349 bytes): no record of such a
    // key can fit in 300 bytes, which exercises every size-error path with a signature longer than the limit
    // keys whose public key starts with 0xe0..=0xef make SHORT signatures (1..8 bytes): valid records of 45..60 bytes,
    // below the size of any record of the built-in schemes; a one-byte signature below 0x80 is a one-byte RLP item
    let len = match public.first() {
        Some(b) if *b >= 0xf0 => 300 + (h % 50) as usize,
        Some(b) if *b >= 0xe0 => 1 + (h % 8) as usize,
        _ => 40 + (h % 50) as usize,
    };
    let mut s = h;
    let mut out = Vec::with_capacity(len + 8);
    while out.len() < len {
        out.extend_from_slice(&splitmix(&mut s).to_le_bytes());
    }
    out.truncate(len);
    out
}
pub fn toy_verify(public: &[u8], msg: &[u8], sig: &[u8]) -> bool {
    public.len() == 32 && toy_sig(public, msg) == sig
}

// ---------------------------------------------------------------------------------------------
// secp256k1
// ---------------------------------------------------------------------------------------------

/// Is `secret` a valid secp256k1 scalar (0 < x < n)?  Own arithmetic.
pub fn secp_secret_valid(secret: &[u8; 32]) -> bool {
    !u256::is_zero(secret) && u256::lt(secret, &u256::N)
}

/// Compressed public key of a secret, derived directly with the libraries.
pub fn secp_pub(secret: &[u8; 32]) -> Option<[u8; 33]> {
    let k = k256::ecdsa::SigningKey::from_slice(secret).ok();
    let a: Option<[u8; 33]> = k.map(|k| {
        let p = k.verifying_key().to_encoded_point(true);
        let mut o = [0u8; 33];
        o.copy_from_slice(p.as_bytes());
        o
    });
    #[cfg(feature = "refsecp")]
    {
        let b = secp256k1::SecretKey::from_slice(secret)
            .ok()
            .map(|s| secp256k1::PublicKey::from_secret_key(secp256k1::SECP256K1, &s).serialize());
        if a != b {
            ORACLE_DISAGREE.fetch_add(1, Ordering::Relaxed);
        }
    }
    a
}

/// Deterministic (RFC 6979), low-S signature over keccak256(content): 64 bytes r||s.
pub fn secp_sign(secret: &[u8; 32], content: &[u8]) -> [u8; 64] {
    let h = keccak256(content);
    secp_sign_digest(secret, &h)
}

pub fn secp_sign_digest(secret: &[u8; 32], h: &[u8; 32]) -> [u8; 64] {
    #[cfg(feature = "refsecp")]
    {
        let sk = secp256k1::SecretKey::from_slice(secret).expect("valid secret");
        let m = secp256k1::Message::from_digest(*h);
        let s = secp256k1::SECP256K1.sign_ecdsa(&m, &sk).serialize_compact();
        return s;
    }
    #[cfg(not(feature = "refsecp"))]
    {
        let k = k256::ecdsa::SigningKey::from_slice(secret).expect("valid secret");
        let s: k256::ecdsa::Signature = k.sign_prehash(h).expect("sign");
        let s = s.normalize_s().unwrap_or(s);
        let mut o = [0u8; 64];
        o.copy_from_slice(&s.to_bytes());
        o
    }
}

#[derive(Clone, Debug, PartialEq, Eq)]
pub enum PubValidity {
    /// valid key; the bytes the node id is the hash of
    Valid(Vec<u8>),
    Invalid,
    /// region the property leaves open (65-byte SEC1 keys, odd ed25519 points)
    Unspec,
}

/// Parse any SEC1 form the back-ends may hold (33-byte 02/03; 65-byte 04, hybrid 06/07) into
/// (compressed, x||y). The two libraries are cross-checked on the forms both understand.
pub fn secp_normalise(bytes: &[u8]) -> Option<([u8; 33], [u8; 64])> {
    let form_ok = match bytes.len() {
        33 => bytes[0] == 2 || bytes[0] == 3,
        65 => bytes[0] == 4 || bytes[0] == 6 || bytes[0] == 7,
        _ => false,
    };
    if !form_ok {
        return None;
    }
    let hybrid = bytes.len() == 65 && bytes[0] != 4;
    let a: Option<([u8; 33], [u8; 64])> = if hybrid {
        None
    } else {
        k256::ecdsa::VerifyingKey::from_sec1_bytes(bytes).ok().map(|vk| {
            let mut c = [0u8; 33];
            c.copy_from_slice(vk.to_encoded_point(true).as_bytes());
            let mut u = [0u8; 64];
            u.copy_from_slice(&vk.to_encoded_point(false).as_bytes()[1..]);
            (c, u)
        })
    };
    #[cfg(feature = "refsecp")]
    {
        let b: Option<([u8; 33], [u8; 64])> = secp256k1::PublicKey::from_slice(bytes).ok().map(|p| {
            let mut u = [0u8; 64];
            u.copy_from_slice(&p.serialize_uncompressed()[1..]);
            (p.serialize(), u)
        });
        if hybrid {
            return b;
        }
        if a != b {
            ORACLE_DISAGREE.fetch_add(1, Ordering::Relaxed);
        }
    }
    a
}

/// RefPub for secp256k1: 33 bytes, tag 02/03, x < p, on curve.
pub fn secp_pub_validity(bytes: &[u8]) -> PubValidity {
    if bytes.len() == 65 {
        return PubValidity::Unspec;
    }
    if bytes.len() != 33 || !(bytes[0] == 2 || bytes[0] == 3) {
        return PubValidity::Invalid;
    }
    let x = u256::from_slice(&bytes[1..]);
    if !u256::lt(&x, &u256::P) {
        return PubValidity::Invalid;
    }
    match secp_normalise(bytes) {
        Some((_, u)) => PubValidity::Valid(u.to_vec()),
        None => PubValidity::Invalid,
    }
}

/// RefSig verification for secp256k1 per the statement of C01: 64 bytes, 0 < r,s < n, s <= n/2,
/// ECDSA equation over keccak256(content), under the key `pubkey` denotes.
pub fn secp_verify(pubkey: &[u8], content: &[u8], sig: &[u8]) -> bool {
    if sig.len() != 64 {
        return false;
    }
    let r = u256::from_slice(&sig[..32]);
    let s = u256::from_slice(&sig[32..]);
    if u256::is_zero(&r) || u256::is_zero(&s) || !u256::lt(&r, &u256::N) || !u256::lt(&s, &u256::N) {
        return false;
    }
    let low_s = s <= u256::HALF_N;
    let compressed = match secp_normalise(pubkey) {
        Some((c, _)) => c,
        None => return false,
    };
    let h = keccak256(content);
    let a = match (k256::ecdsa::VerifyingKey::from_sec1_bytes(&compressed), k256::ecdsa::Signature::from_slice(sig)) {
        (Ok(vk), Ok(sg)) => vk.verify_prehash(&h, &sg).is_ok(),
        _ => false,
    };
    #[cfg(feature = "refsecp")]
    {
        let b = match (secp256k1::PublicKey::from_slice(&compressed), secp256k1::ecdsa::Signature::from_compact(sig)) {
            (Ok(pk), Ok(sg)) => {
                secp256k1::SECP256K1.verify_ecdsa(&secp256k1::Message::from_digest(h), &sg, &pk).is_ok()
            }
            _ => false,
        };
        if a != b {
            ORACLE_DISAGREE.fetch_add(1, Ordering::Relaxed);
        }
    }
    if a && !low_s {
        // both libraries are expected to refuse high-S; if they did not, the oracle is off
        ORACLE_DISAGREE.fetch_add(1, Ordering::Relaxed);
    }
    a && low_s
}

/// The high-S twin (r, n - s) of a signature.
pub fn secp_high_s_twin(sig: &[u8; 64]) -> [u8; 64] {
    let s = u256::from_slice(&sig[32..]);
    let mut o = *sig;
    o[32..].copy_from_slice(&u256::sub(&u256::N, &s));
    o
}

// ---------------------------------------------------------------------------------------------
// ed25519
// ---------------------------------------------------------------------------------------------
pub fn ed_pub(secret: &[u8; 32]) -> [u8; 32] {
    ed25519_dalek::SigningKey::from_bytes(secret).verifying_key().to_bytes()
}
pub fn ed_sign(secret: &[u8; 32], content: &[u8]) -> [u8; 64] {
    use ed25519_dalek::Signer;
    ed25519_dalek::SigningKey::from_bytes(secret).sign(content).to_bytes()
}
pub fn ed_pub_validity(bytes: &[u8]) -> PubValidity {
    if bytes.len() != 32 {
        return PubValidity::Invalid;
    }
    let mut b = [0u8; 32];
    b.copy_from_slice(bytes);
    // non-canonical y (>= 2^255 - 19): little-endian, sign bit cleared
    let mut y = b;
    y[31] &= 0x7f;
    let noncanon = y[31] == 0x7f && y[1..31].iter().all(|&v| v == 0xff) && y[0] >= 0xed;
    match ed25519_dalek::VerifyingKey::from_bytes(&b) {
        Ok(vk) => {
            if noncanon || vk.is_weak() {
                PubValidity::Unspec
            } else {
                PubValidity::Valid(bytes.to_vec())
            }
        }
        Err(_) => {
            if noncanon {
                PubValidity::Unspec
            } else {
                PubValidity::Invalid
            }
        }
    }
}
pub fn ed_verify(pubkey: &[u8], content: &[u8], sig: &[u8]) -> bool {
    use ed25519_dalek::Verifier;
    if pubkey.len() != 32 || sig.len() != 64 {
        return false;
    }
    let mut pb = [0u8; 32];
    pb.copy_from_slice(pubkey);
    let mut sb = [0u8; 64];
    sb.copy_from_slice(sig);
    match ed25519_dalek::VerifyingKey::from_bytes(&pb) {
        Ok(vk) => vk.verify(content, &ed25519_dalek::Signature::from_bytes(&sb)).is_ok(),
        Err(_) => false,
    }
}

// ---------------------------------------------------------------------------------------------
// scheme-generic front
// ---------------------------------------------------------------------------------------------
#[derive(Clone, Copy, Debug, PartialEq, Eq, Hash, Serialize, Deserialize)]
pub struct RefKey {
    pub scheme: Scheme,
    pub secret: [u8; 32],
}

impl RefKey {
    pub fn new(scheme: Scheme, secret: [u8; 32]) -> Self {
        if scheme == Scheme::Secp {
            assert!(secp_secret_valid(&secret), "RefKey: invalid secp secret");
        }
        Self { scheme, secret }
    }
    pub fn pub_bytes(&self) -> Vec<u8> {
        match self.scheme {
            Scheme::Secp => secp_pub(&self.secret).expect("valid secret").to_vec(),
            Scheme::Ed => ed_pub(&self.secret).to_vec(),
            Scheme::Toy => toy_pub(&self.secret).to_vec(),
        }
    }
    pub fn sign(&self, content: &[u8]) -> Vec<u8> {
        match self.scheme {
            Scheme::Secp => secp_sign(&self.secret, content).to_vec(),
            Scheme::Ed => ed_sign(&self.secret, content).to_vec(),
            Scheme::Toy => toy_sig(&toy_pub(&self.secret), content),
        }
    }
}

pub fn pub_validity(scheme: Scheme, bytes: &[u8]) -> PubValidity {
    match scheme {
        Scheme::Secp => secp_pub_validity(bytes),
        Scheme::Ed => ed_pub_validity(bytes),
        Scheme::Toy => {
            if bytes.len() == 32 {
                PubValidity::Valid(bytes.to_vec())
            } else {
                PubValidity::Invalid
            }
        }
    }
}

pub fn verify(scheme: Scheme, pubkey: &[u8], content: &[u8], sig: &[u8]) -> bool {
    match scheme {
        Scheme::Secp => secp_verify(pubkey, content, sig),
        Scheme::Ed => ed_verify(pubkey, content, sig),
        Scheme::Toy => toy_verify(pubkey, content, sig),
    }
}

/// RefNodeId: keccak256 of the uncompressed x||y (secp) or of the 32-byte key.
pub fn node_id(scheme: Scheme, pubkey: &[u8]) -> Option<[u8; 32]> {
    match scheme {
        Scheme::Secp => secp_normalise(pubkey).map(|(_, u)| keccak256(&u)),
        Scheme::Ed | Scheme::Toy => {
            if pubkey.len() == 32 {
                Some(keccak256(pubkey))
            } else {
                None
            }
        }
    }
}

pub fn disagreements() -> u64 {
    ORACLE_DISAGREE.load(Ordering::Relaxed)
}
