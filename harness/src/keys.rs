//! Key types the harness drives the library with: the built-in ones, `ToyKey` (a custom scheme with
//! variable-length signatures, cheap enough for Miri) and `FaultKey<K>` (fault injection at a chosen
//! signing call). The last two need the `verif-hooks` feature of `enr` (DESIGN.md §3).

use crate::refimpl::decode::KT;
use crate::refimpl::sig::{self, Scheme};
use alloy_rlp::{Decodable, Error as DecoderError};
use bytes::Bytes;
use enr::{EnrKey, EnrPublicKey, SigningError};
use std::collections::BTreeMap;
use std::sync::atomic::{AtomicBool, AtomicI64, AtomicU64, Ordering};

// ------------------------------------------------------------------------------------------
// ToyKey
// ------------------------------------------------------------------------------------------
pub struct ToyKey {
    public: [u8; 32],
}
#[derive(Clone, Debug, PartialEq, Eq)]
pub struct ToyPublic(pub [u8; 32]);

impl ToyKey {
    pub fn from_secret(secret: &[u8; 32]) -> Self {
        Self { public: sig::toy_pub(secret) }
    }
}

impl EnrKey for ToyKey {
    type PublicKey = ToyPublic;
    fn sign_v4(&self, msg: &[u8]) -> Result<Vec<u8>, SigningError> {
        Ok(sig::toy_sig(&self.public, msg))
    }
    fn public(&self) -> ToyPublic {
        ToyPublic(self.public)
    }
    fn enr_to_public(content: &BTreeMap<Vec<u8>, Bytes>) -> Result<ToyPublic, DecoderError> {
        let raw = content.get(&b"toy"[..]).ok_or(DecoderError::Custom("Unknown signature"))?;
        let b = Bytes::decode(&mut raw.as_ref())?;
        if b.len() != 32 {
            return Err(DecoderError::Custom("bad toy key"));
        }
        let mut o = [0u8; 32];
        o.copy_from_slice(&b);
        Ok(ToyPublic(o))
    }
}

impl enr::EnrKeyUnambiguous for ToyKey {
    fn decode_public(bytes: &[u8]) -> Result<ToyPublic, DecoderError> {
        if bytes.len() != 32 {
            return Err(DecoderError::Custom("bad toy key"));
        }
        let mut o = [0u8; 32];
        o.copy_from_slice(bytes);
        Ok(ToyPublic(o))
    }
}

impl EnrPublicKey for ToyPublic {
    type Raw = [u8; 32];
    type RawUncompressed = [u8; 32];
    fn verify_v4(&self, msg: &[u8], sig: &[u8]) -> bool {
        sig::toy_verify(&self.0, msg, sig)
    }
    fn encode(&self) -> [u8; 32] {
        self.0
    }
    fn encode_uncompressed(&self) -> [u8; 32] {
        self.0
    }
    fn enr_key(&self) -> Vec<u8> {
        b"toy".to_vec()
    }
}

// ------------------------------------------------------------------------------------------
// FaultKey
// ------------------------------------------------------------------------------------------
/// Wraps a real key; the `fail_at`-th signing call (1-based) fails. Counts signing calls.
pub struct FaultKey<K: EnrKey> {
    pub inner: K,
    pub calls: AtomicU64,
    pub fail_at: AtomicI64,
    pub fired: AtomicBool,
    /// the failing call PANICS (user code unwinding through the library) instead of returning an error
    pub panic_instead: AtomicBool,
}

impl<K: EnrKey> FaultKey<K> {
    pub fn new(inner: K) -> Self {
        Self { inner, calls: AtomicU64::new(0), fail_at: AtomicI64::new(-1), fired: AtomicBool::new(false), panic_instead: AtomicBool::new(false) }
    }
}

impl<K: EnrKey> EnrKey for FaultKey<K> {
    type PublicKey = K::PublicKey;
    fn sign_v4(&self, msg: &[u8]) -> Result<Vec<u8>, SigningError> {
        let n = self.calls.fetch_add(1, Ordering::SeqCst) + 1;
        if n as i64 == self.fail_at.load(Ordering::SeqCst) {
            self.fired.store(true, Ordering::SeqCst);
            if self.panic_instead.load(Ordering::SeqCst) {
                panic!("injected signer panic");
            }
            return Err(SigningError::verif_new("injected signer fault"));
        }
        self.inner.sign_v4(msg)
    }
    fn public(&self) -> K::PublicKey {
        self.inner.public()
    }
    fn enr_to_public(content: &BTreeMap<Vec<u8>, Bytes>) -> Result<K::PublicKey, DecoderError> {
        K::enr_to_public(content)
    }
}

// ------------------------------------------------------------------------------------------
// KeyKind: uniform construction of keys of every type from (scheme, 32 secret bytes)
// ------------------------------------------------------------------------------------------
pub trait KeyKind: 'static {
    type K: EnrKey;
    const KT: KT;
    const FAULTY: bool = false;
    fn make(scheme: Scheme, secret: &[u8; 32]) -> Self::K;
    /// fault control (no-ops for plain keys)
    fn arm(_k: &Self::K, _at: Option<u64>) {}
    fn sign_calls(_k: &Self::K) -> u64 {
        0
    }
    fn take_fired(_k: &Self::K) -> bool {
        false
    }
    fn name() -> String {
        if Self::FAULTY {
            format!("fault<{}>", Self::KT.name())
        } else {
            Self::KT.name().to_string()
        }
    }
}

pub struct K256K;
impl KeyKind for K256K {
    type K = k256::ecdsa::SigningKey;
    const KT: KT = KT::K256;
    fn make(scheme: Scheme, secret: &[u8; 32]) -> Self::K {
        assert_eq!(scheme, Scheme::Secp);
        k256::ecdsa::SigningKey::from_slice(secret).expect("valid secp secret")
    }
}

#[cfg(feature = "libsecp")]
pub struct LibsecpK;
#[cfg(feature = "libsecp")]
impl KeyKind for LibsecpK {
    type K = secp256k1::SecretKey;
    const KT: KT = KT::Libsecp;
    fn make(scheme: Scheme, secret: &[u8; 32]) -> Self::K {
        assert_eq!(scheme, Scheme::Secp);
        secp256k1::SecretKey::from_slice(secret).expect("valid secp secret")
    }
}

#[cfg(not(feature = "ed"))]
pub type EdK = ToyK;
#[cfg(not(feature = "ed"))]
pub type CombK = ToyK;

#[cfg(feature = "ed")]
pub struct EdK;
#[cfg(feature = "ed")]
impl KeyKind for EdK {
    type K = ed25519_dalek::SigningKey;
    const KT: KT = KT::Ed;
    fn make(scheme: Scheme, secret: &[u8; 32]) -> Self::K {
        assert_eq!(scheme, Scheme::Ed);
        ed25519_dalek::SigningKey::from_bytes(secret)
    }
}

#[cfg(feature = "ed")]
pub struct CombK;
#[cfg(feature = "ed")]
impl KeyKind for CombK {
    type K = enr::CombinedKey;
    const KT: KT = KT::Comb;
    fn make(scheme: Scheme, secret: &[u8; 32]) -> Self::K {
        match scheme {
            Scheme::Secp => enr::CombinedKey::Secp256k1(k256::ecdsa::SigningKey::from_slice(secret).expect("valid")),
            Scheme::Ed => enr::CombinedKey::Ed25519(ed25519_dalek::SigningKey::from_bytes(secret)),
            Scheme::Toy => panic!("CombinedKey cannot carry the toy scheme"),
        }
    }
}

pub struct ToyK;
impl KeyKind for ToyK {
    type K = ToyKey;
    const KT: KT = KT::Toy;
    fn make(scheme: Scheme, secret: &[u8; 32]) -> Self::K {
        assert_eq!(scheme, Scheme::Toy);
        ToyKey::from_secret(secret)
    }
}

pub struct FaultK<KK: KeyKind>(std::marker::PhantomData<KK>);
impl<KK: KeyKind> KeyKind for FaultK<KK> {
    type K = FaultKey<KK::K>;
    const KT: KT = KK::KT;
    const FAULTY: bool = true;
    fn make(scheme: Scheme, secret: &[u8; 32]) -> Self::K {
        FaultKey::new(KK::make(scheme, secret))
    }
    fn arm(k: &Self::K, at: Option<u64>) {
        k.calls.store(0, Ordering::SeqCst);
        k.fired.store(false, Ordering::SeqCst);
        k.fail_at.store(at.map(|v| v as i64).unwrap_or(-1), Ordering::SeqCst);
    }
    fn sign_calls(k: &Self::K) -> u64 {
        k.calls.load(Ordering::SeqCst)
    }
    fn take_fired(k: &Self::K) -> bool {
        k.fired.swap(false, Ordering::SeqCst)
    }
}

/// Deterministic valid secret for a scheme from a 64-bit label.
/// a Toy secret whose public key starts with a byte >= 0xf0 (long signatures, see sig::toy_sig)
pub const LONG_TOY_LABEL: u64 = 0x7070_0000;

/// a Toy secret whose public key starts with 0xe0..=0xef (signatures of 1..8 bytes)
pub const SHORT_TOY_LABEL: u64 = 0x7171_0000;

pub fn secret_from(scheme: Scheme, label: u64) -> [u8; 32] {
    if scheme == Scheme::Toy && (label & 0xffff_0000 == LONG_TOY_LABEL || label & 0xffff_0000 == SHORT_TOY_LABEL) {
        let long = label & 0xffff_0000 == LONG_TOY_LABEL;
        for i in 0..100_000u64 {
            let s = secret_from(scheme, (label & 0xffff) * 100_003 + i + if long { 0x9000_0000 } else { 0xa000_0000 });
            let b = sig::toy_pub(&s)[0];
            if (long && b >= 0xf0) || (!long && (0xe0..0xf0).contains(&b)) {
                return s;
            }
        }
    }
    // labels with the top bit set name the NEGATION (n - k) of the secp256k1 key of the label without it:
    // same x coordinate, other parity
    if label >> 63 == 1 && scheme == Scheme::Secp {
        let k = secret_from(scheme, label & !(1u64 << 63));
        return crate::refimpl::u256::sub(&crate::refimpl::u256::N, &k);
    }
    let mut s = label ^ 0x5851f42d4c957f2d;
    let mut next = || {
        s = s.wrapping_add(0x9e3779b97f4a7c15);
        let mut z = s;
        z = (z ^ (z >> 30)).wrapping_mul(0xbf58476d1ce4e5b9);
        z = (z ^ (z >> 27)).wrapping_mul(0x94d049bb133111eb);
        z ^ (z >> 31)
    };
    loop {
        let mut out = [0u8; 32];
        for c in out.chunks_mut(8) {
            c.copy_from_slice(&next().to_be_bytes());
        }
        if scheme != Scheme::Secp || sig::secp_secret_valid(&out) {
            return out;
        }
    }
}
