//! History-side property workloads (C03..C10, C14, C15).

use crate::props::concurrency_probe;
use crate::gen::{self, Rec};
use crate::hist::{History, Init, RunOpts};
use crate::model::*;
use crate::plans::*;
use crate::props::{c10_decode_part, c11_decode_part, wdec, ByteLevel, DecPlan};
use crate::refimpl::decode::KT;
use crate::refimpl::rlp::{self, Item};
use crate::refimpl::sig::Scheme;
use crate::report::Ctx;
use crate::util::{below, rng_for};
use serde_json::json;

pub const OWN: u64 = 1000;
pub const OTHER: u64 = 2000;

/// all length-1 histories over the full alphabet x all inits x both signers
pub fn exhaustive_len1(ctx: &mut Ctx, faulty: bool, opts: &RunOpts, kinds_filter: &dyn Fn(KT, Scheme) -> bool) {
    let mut n = 0u64;
    for (kt, scheme) in kinds() {
        if !kinds_filter(kt, scheme) {
            continue;
        }
        let own_pub = own_ref(scheme, OWN).pub_bytes();
        let other_pub = own_ref(scheme, OTHER).pub_bytes();
        for (_name, seq, init) in inits(scheme, OWN) {
            let alpha = alphabet(scheme, seq, &own_pub, &other_pub);
            for op in &alpha {
                for signer in [Signer::Own, Signer::Other] {
                    n += 1;
                    if !ctx.mine(n) {
                        continue;
                    }
                    if ctx.expired() {
                        ctx.count("deadline-stops");
                        return;
                    }
                    let h = mk_history(scheme, OWN, OTHER, &init, vec![Step { op: op.clone(), signer }]);
                    run_hist_kt(ctx, kt, faulty, &h, opts);
                    ctx.count("exhaustive-len1");
                }
            }
        }
    }
}

/// all length-`len` histories over the sub-alphabet from a few inits (own signer; the last step also by Other)
pub fn exhaustive_sub(ctx: &mut Ctx, len: usize, init_names: &[&str], opts: &RunOpts, kinds_filter: &dyn Fn(KT, Scheme) -> bool) {
    let mut n = 0u64;
    for (kt, scheme) in kinds() {
        if !kinds_filter(kt, scheme) {
            continue;
        }
        let own_pub = own_ref(scheme, OWN).pub_bytes();
        let other_pub = own_ref(scheme, OTHER).pub_bytes();
        for (name, seq, init) in inits(scheme, OWN) {
            if !init_names.iter().any(|p| name.starts_with(p)) {
                continue;
            }
            let alpha = sub_alphabet(scheme, seq, &own_pub, &other_pub);
            let total = alpha.len().pow(len as u32);
            for idx in 0..total {
                n += 1;
                if !ctx.mine(n) {
                    continue;
                }
                if ctx.expired() {
                    ctx.count("deadline-stops");
                    return;
                }
                let mut steps = Vec::with_capacity(len);
                let mut x = idx;
                for pos in 0..len {
                    let op = alpha[x % alpha.len()].clone();
                    x /= alpha.len();
                    // re-key in the middle of every 5th sequence
                    let signer = if idx % 5 == 4 && pos == len / 2 { Signer::Other } else { Signer::Own };
                    steps.push(Step { op, signer });
                }
                let h = mk_history(scheme, OWN, OTHER, &init, steps);
                run_hist_kt(ctx, kt, false, &h, opts);
                ctx.count(&format!("exhaustive-len{len}"));
            }
        }
    }
}

pub fn random_histories(ctx: &mut Ctx, count: u64, min_len: usize, max_len: usize, opts: &RunOpts, kinds_filter: &dyn Fn(KT, Scheme) -> bool) {
    let ks: Vec<(KT, Scheme)> = kinds().into_iter().filter(|(k, s)| kinds_filter(*k, *s)).collect();
    if ks.is_empty() {
        return;
    }
    let count = if cfg!(miri) { count } else { ctx.vol(count) };
    for i in 0..count {
        if !ctx.mine(i) {
            continue;
        }
        if ctx.expired() {
            ctx.count("deadline-stops");
            return;
        }
        let mut r = rng_for(ctx.seed, &["rand-hist"], i);
        let (kt, scheme) = ks[(i / ctx.nshards) as usize % ks.len()];
        let len = min_len + below(&mut r, (max_len - min_len + 1) as u64) as usize;
        let h = random_history(&mut r, scheme, len);
        run_hist_kt(ctx, kt, false, &h, opts);
        ctx.count("random-histories");
    }
}

fn all(_: KT, _: Scheme) -> bool {
    true
}

pub fn builder_plans(ctx: &mut Ctx, opts: &RunOpts) {
    // every builder method with well- and ill-formed raw shapes, builder entries overriding each other
    let k = |s: &str| s.as_bytes().to_vec();
    let mut plans: Vec<Vec<BEntry>> = vec![
        vec![],
        vec![BEntry::Ip("10.1.2.3".parse().unwrap()), BEntry::Ip("::1".parse().unwrap())],
        vec![BEntry::Ip("::ffff:10.1.2.3".parse().unwrap())],
        vec![BEntry::Ip4([7, 7, 7, 7]), BEntry::Ip("::ffff:9.9.9.9".parse().unwrap()), BEntry::Udp6(5)],
        vec![BEntry::Ip("::".parse().unwrap()), BEntry::Ip("0.0.0.0".parse().unwrap())],
        vec![BEntry::Ip4([1, 1, 1, 1]), BEntry::Ip6([2; 16]), BEntry::Tcp4(0), BEntry::Tcp6(65_535), BEntry::Udp4(128), BEntry::Udp6(255)],
        vec![BEntry::Seq(0)],
        vec![BEntry::Seq(u64::MAX), BEntry::Udp4(1)],
        vec![BEntry::Client("Geth".into(), "1.0".into(), Some("linux".into()))],
        vec![BEntry::Client("Geth".into(), "1.0".into(), None), BEntry::Add(k("client"), Val::B(vec![1]))],
        vec![BEntry::Add(k("x"), Val::B(vec![])), BEntry::Add(k("x"), Val::U64(77)), BEntry::Add(k("y"), Val::LL(vec![vec![vec![1]]]))],
        vec![BEntry::Add(k("tcp"), Val::U64(70_000))],
        vec![BEntry::Add(k("udp"), Val::B(vec![0, 1]))],
        vec![BEntry::Add(k("ip"), Val::B(vec![1, 2, 3]))],
        vec![BEntry::Add(k("ip6"), Val::B(vec![1; 4]))],
        vec![BEntry::Add(k("ip"), Val::L(vec![vec![1, 2, 3, 4]]))],
        vec![BEntry::Add(k("id"), Val::B(b"v5".to_vec()))],
        vec![BEntry::Add(k("id"), Val::B(b"v4".to_vec()))],
        vec![BEntry::AddRaw(k("ip"), vec![0x01])],
        vec![BEntry::AddRaw(k("tcp"), vec![0x82, 0x00, 0x01])],
        vec![BEntry::AddRaw(k("x"), vec![0x01, 0x02])],
        vec![BEntry::AddRaw(k("x"), vec![])],
        vec![BEntry::AddRaw(k("x"), vec![0xc1])],
        vec![BEntry::AddRaw(k("x"), vec![0x83, 0x01])],
        vec![BEntry::AddRaw(k("x"), vec![0x81, 0x05])],
        vec![BEntry::AddRaw(k("x"), vec![0xc2, 0x01, 0x02])],
        vec![BEntry::AddRaw(k("x"), vec![0xc0]), BEntry::AddRaw(k("y"), vec![0x80])],
        vec![BEntry::AddRaw(k("x"), vec![0xc0, 0x80])],
        vec![BEntry::AddRawNested(k("x"), 400_000)],
        vec![BEntry::AddRawNested(k("x"), 30)],
        vec![BEntry::Add(k("rec"), Val::Rec)],
        vec![BEntry::Add(k("huge"), Val::B(vec![0x22; 70_000]))],
        vec![BEntry::AddRaw(k("id"), vec![0xc0])],
        vec![BEntry::AddRaw(k("ed25519"), vec![0xc0])],
        vec![BEntry::AddRaw(k("secp256k1"), vec![0xc0])],
        vec![BEntry::Add(k("secp256k1"), Val::B(vec![3; 33]))],
        vec![BEntry::Add(k("secp256k1"), Val::B(vec![2, 9, 9]))],
        vec![BEntry::Add(k("secp256k1"), Val::B(vec![3; 34]))],
        vec![BEntry::Add(k("secp256k1"), Val::B(crate::util::unhex("03ca634cae0d49acb401d8a4c6b6fe8c55b70d115bf400769cc1400f3258cd3138").unwrap()))],
        vec![BEntry::Add(k("secp256k1"), Val::B({
            let c = crate::util::unhex("03ca634cae0d49acb401d8a4c6b6fe8c55b70d115bf400769cc1400f3258cd3138").unwrap();
            match crate::refimpl::sig::secp_normalise(&c) {
                Some((_, u)) => {
                    let mut h = vec![6 + (u[63] & 1)];
                    h.extend_from_slice(&u);
                    h
                }
                None => c,
            }
        }))],
        vec![BEntry::Add(k("ed25519"), Val::B(vec![3; 5]))],
        vec![BEntry::Add(k("toy"), Val::B(vec![3; 5]))],
    ];
    // sizes 280..=320 through a padding value
    for pad in 150..=215usize {
        plans.push(vec![BEntry::Ip4([9, 9, 9, 9]), BEntry::Add(k("pad"), Val::B(vec![0x11; pad]))]);
        plans.push(vec![BEntry::Seq(65_535), BEntry::Add(k("pad"), Val::B(vec![0x11; pad]))]);
    }
    // the same size sweep with keys whose bytes are >= 0x80 and with several one-byte keys
    for pad in (140..=205usize).step_by(1) {
        plans.push(vec![BEntry::Add("ключ".as_bytes().to_vec(), Val::B(vec![0x11; pad]))]);
        plans.push(vec![BEntry::Add(k("a"), Val::U8(1)), BEntry::Add(k("b"), Val::U8(2)), BEntry::Add(vec![0x05], Val::U8(3)), BEntry::Add(vec![0xfe, 0xff, 0x80, 0x81], Val::B(vec![0x11; pad]))]);
    }
    let mut n = 0u64;
    // plan by plan, every key type in turn IN ONE SHARD: a build of one key type comes right after a build of
    // another (state a build leaves behind for the next, of whatever type, would show)
    for p in &plans {
        n += 1;
        if !ctx.mine(n) {
            continue;
        }
        for (kt, scheme) in kinds() {
            if ctx.expired() {
                return;
            }
            // one follow-up step so that builder-made states are also exercised by a mutator
            let h = mk_history(scheme, OWN, OTHER, &Init::Build(p.clone()), vec![Step { op: Op::SetUdp4(5), signer: Signer::Own }]);
            run_hist_kt(ctx, kt, false, &h, opts);
            ctx.count("builder-plans");
        }
    }
    // random builder call sequences (every method, repeated and overriding each other, in any order)
    {
        let total = ctx.vol(if ctx.quick() { 240 } else { 20_000 });
        let ks = kinds();
        for i in 0..total {
            if !ctx.mine(i) {
                continue;
            }
            if ctx.expired() {
                return;
            }
            let mut r = rng_for(ctx.seed, &["rand-builder"], i);
            let (kt, scheme) = ks[(i / ctx.nshards) as usize % ks.len()];
            let nent = below(&mut r, 9) as usize;
            let p = random_plan(&mut r, nent);
            let h = mk_history(scheme, OWN, OTHER, &Init::Build(p), vec![Step { op: Op::SetTcp4(7), signer: Signer::Own }]);
            run_hist_kt(ctx, kt, false, &h, opts);
            ctx.count("random-builder-plans");
        }
    }
    // builder re-use: build() twice from one builder (it stores id and the key in its own content), then
    // once more with another key of the same scheme — each result must be the model's
    builder_reuse(ctx);
    incremental_builder(ctx);
    // builder with fault on the signing call
    for (kt, scheme) in kinds() {
        n += 1;
        if !ctx.mine(n) {
            continue;
        }
        let mut h = mk_history(scheme, OWN, OTHER, &Init::Build(vec![BEntry::Udp4(1)]), vec![]);
        h.fault = Some((Signer::Own, 1));
        run_hist_kt(ctx, kt, true, &h, opts);
        ctx.count("builder-fault");
    }
}

/// insert / remove with every single-byte key and boundary value lengths (special byte values, RLP form changes)
pub fn byte_value_histories(ctx: &mut Ctx, opts: &RunOpts) {
    let mut n = 0u64;
    for (kt, scheme) in kinds() {
        if !matches!(kt, KT::K256 | KT::Toy | KT::Comb) {
            continue;
        }
        for b in 0..=255u8 {
            n += 1;
            if !ctx.mine(n) {
                continue;
            }
            if ctx.expired() {
                return;
            }
            let len = [0usize, 1, 54, 55, 56, 57][(b % 6) as usize];
            let steps = vec![
                Step { op: Op::Insert(vec![b], Val::B(vec![b; len])), signer: Signer::Own },
                Step { op: Op::InsertRaw(vec![b, b], rlp::enc_str(&[b])), signer: Signer::Own },
                Step { op: Op::RemoveInsert(vec![vec![b]], vec![(vec![b, 1], vec![b; 2]), (vec![b, 2], vec![b])]), signer: Signer::Own },
                Step { op: Op::RemoveKey(vec![b, b]), signer: Signer::Own },
            ];
            let h = mk_history(scheme, OWN, OTHER, &Init::Build(vec![BEntry::Add(vec![b], Val::U8(b))]), steps);
            run_hist_kt(ctx, kt, false, &h, opts);
            ctx.count("byte-value-histories");
        }
    }
}

/// Histories in which one signing call FAILS and the history goes on: the records handed out by the later
/// successful updates are judged like any other (a failed update must not poison what follows).
pub fn fault_histories(ctx: &mut Ctx, count: u64, opts: &RunOpts) {
    let ks = kinds();
    let count = ctx.vol(count);
    for i in 0..count {
        if !ctx.mine(i) {
            continue;
        }
        if ctx.expired() {
            return;
        }
        let mut r = rng_for(ctx.seed, &["fault-hist"], i);
        let (kt, scheme) = ks[(i / ctx.nshards) as usize % ks.len()];
        let mut h = { let len = 6 + below(&mut r, 14) as usize; random_history(&mut r, scheme, len) };
        h.fault = Some((if below(&mut r, 4) == 0 { Signer::Other } else { Signer::Own }, 1 + below(&mut r, 8)));
        run_hist_kt(ctx, kt, true, &h, opts);
        ctx.count("fault-histories");
    }
}

/// Every mutator of the sub-alphabet as a ONE-step history whose only signing call fails, signed by the record's
/// own key and by another key of the scheme (then the failing call is a re-keying attempt).
pub fn fault_len1(ctx: &mut Ctx, opts: &RunOpts) {
    let mut n = 0u64;
    for (kt, scheme) in kinds() {
        let own_pub = own_ref(scheme, OWN).pub_bytes();
        let other_pub = own_ref(scheme, OTHER).pub_bytes();
        for op in sub_alphabet(scheme, 1, &own_pub, &other_pub) {
            for who in [Signer::Own, Signer::Other] {
                n += 1;
                if !ctx.mine(n) {
                    continue;
                }
                if ctx.expired() {
                    return;
                }
                let mut h = mk_history(scheme, OWN, OTHER, &Init::Build(vec![BEntry::Udp4(30303), BEntry::Add(b"x".to_vec(), Val::U8(1))]), vec![Step { op: op.clone(), signer: who }, Step { op: Op::SetTcp4(5), signer: Signer::Own }]);
                h.fault = Some((who, if who == Signer::Own { 2 } else { 1 }));
                run_hist_kt(ctx, kt, true, &h, opts);
                ctx.count("fault-len1-histories");
            }
        }
    }
}

/// Records made by the library's own builder and mutators, fed back to the decoder monitors: a fault that is the
/// same in signing and in verifying (the signed message built wrongly for some shape of content) makes the library
/// accept its own records while RefSig does not. Content sizes are swept across the places where the RLP list header
/// of the signed message changes form (55/56 and 255/256 bytes of content).
pub fn lib_made_records(ctx: &mut Ctx) {
    let opts = RunOpts { full_state_checks: false, keep_states: false };
    ctx.judge_lib_made = true;
    let mut n = 0u64;
    for (kt, scheme) in kinds() {
        let own_pub = own_ref(scheme, OWN).pub_bytes();
        let other_pub = own_ref(scheme, OTHER).pub_bytes();
        for (iname, _, init) in inits(scheme, OWN).into_iter().filter(|(n, _, _)| n == "built-minimal" || n == "built-typical" || n == "built-seq-65535" || n == "built-seq-4294967295") {
            for op in sub_alphabet(scheme, 1, &own_pub, &other_pub) {
                n += 1;
                if !ctx.mine(n) {
                    continue;
                }
                if ctx.expired() {
                    ctx.judge_lib_made = false;
                    return;
                }
                let _ = &iname;
                let h = mk_history(scheme, OWN, OTHER, &init, vec![Step { op: op.clone(), signer: Signer::Own }, Step { op: Op::SetTcp6(4), signer: Signer::Other }]);
                run_hist_kt(ctx, kt, false, &h, &opts);
            }
        }
        for seq in [1u64, 300, 70_000, 0x0100_0000] {
            for len in (0..=40usize).chain(175..=215) {
                n += 1;
                if !ctx.mine(n) {
                    continue;
                }
                if ctx.expired() {
                    ctx.judge_lib_made = false;
                    return;
                }
                let h = mk_history(scheme, OWN, OTHER, &Init::Build(vec![BEntry::Seq(seq)]), vec![Step { op: Op::Insert(b"p".to_vec(), Val::B(vec![0x33; len])), signer: Signer::Own }, Step { op: Op::RemoveKey(b"p".to_vec()), signer: Signer::Own }]);
                run_hist_kt(ctx, kt, false, &h, &opts);
                ctx.count("lib-made.content-size-cases");
            }
        }
    }
    ctx.judge_lib_made = false;
}

/// A signer that PANICS once (user code unwinding through the library, caught by the caller): the record the panic
/// unwound through must still answer every accessor, and every LATER call — the same key on another record, other
/// key types, the decoder — must behave as if nothing had happened (nothing process-wide may stay locked or
/// poisoned). No claim is made about the content of the record the panic interrupted.
pub fn signer_panic_probe(ctx: &mut Ctx) {
    use crate::hist::{apply_build, apply_op};
    use crate::keys::*;
    use crate::obs::observe;
    use std::sync::atomic::Ordering;
    fn go<KK: KeyKind>(ctx: &mut Ctx, scheme: Scheme) {
        let fk = FaultKey::new(KK::make(scheme, &secret_from(scheme, OWN)));
        let other = FaultKey::new(KK::make(scheme, &secret_from(scheme, OTHER)));
        let ktn = KK::name();
        let replay = || json!({"kind": "note", "what": "signer-panic-probe", "kt": KK::name()});
        let e0 = match crate::util::guard(|| apply_build::<FaultKey<KK::K>>(&[BEntry::Udp4(1), BEntry::Add(b"x".to_vec(), Val::U8(1))], &fk)) {
            Ok(Ok(e)) => e,
            _ => return,
        };
        let ops = [Op::SetUdp4(9), Op::SetSeq(77), Op::Insert(b"y".to_vec(), Val::U8(2)), Op::RemoveKey(b"udp".to_vec()), Op::RemoveInsert(vec![b"x".to_vec()], vec![(b"z".to_vec(), vec![0x01])]), Op::SetPublicKey(PkArg::OfSigner), Op::SetIp("10.0.0.1".parse().unwrap())];
        for op in ops {
            let mut victim = e0.clone();
            fk.panic_instead.store(true, Ordering::SeqCst);
            fk.fail_at.store(fk.calls.load(Ordering::SeqCst) as i64 + 1, Ordering::SeqCst);
            let r = crate::util::guard(|| apply_op(&mut victim, &op, &fk, &other).map(|_| ()).map_err(|e| format!("{e:?}")));
            fk.fail_at.store(-1, Ordering::SeqCst);
            fk.panic_instead.store(false, Ordering::SeqCst);
            fk.fired.store(false, Ordering::SeqCst);
            ctx.count("evaluations");
            ctx.count("signer-panic-cases");
            if !matches!(&r, Err(p) if p.contains("injected signer panic")) {
                // the call did not reach the signer (or the library swallowed the panic): nothing to observe here
                continue;
            }
            if let Err(p) = observe(&victim) {
                ctx.violate("C03", "panic", &format!("accessor-after-signer-panic/{}", crate::util::panic_sig(&p)), || format!("{ktn}: accessors panic on the record a panicking signer unwound through ({}): {p}", op.name()), replay);
            }
            // the same key, another record; then the other key
            for (who, key) in [("same key", &fk), ("other key", &other)] {
                let mut e1 = e0.clone();
                let r2 = crate::util::guard(|| apply_op(&mut e1, &Op::SetTcp4(5), key, &fk).map(|_| ()).map_err(|e| format!("{e:?}")));
                let healthy = matches!(r2, Ok(Ok(()))) && crate::util::guard(|| e1.verify() && e1.tcp4() == Some(5)).unwrap_or(false);
                if !healthy {
                    if let Err(p) = &r2 {
                        ctx.violate("C03", "panic", &format!("update-after-signer-panic/{}", crate::util::panic_sig(p)), || format!("{ktn}: an update of ANOTHER record ({who}) panics after a signer panicked once in {}: {p}", op.name()), replay);
                    }
                    for prop in ["C08", "C05", "C06"] {
                        ctx.violate(prop, "update-misbehaves-after-a-signer-panic-elsewhere", &format!("{}/{}", op.name(), KK::name()), || format!("{ktn}: after a signer panicked once in {}, set_tcp4 on another record ({who}) gave {r2:?}", op.name()), replay);
                    }
                    return;
                }
            }
        }
    }
    if cfg!(miri) || !ctx.mine_few(11) {
        return;
    }
    let small = |scheme: Scheme| mk_history(scheme, OWN, OTHER, &Init::Build(vec![BEntry::Udp4(2)]), vec![Step { op: Op::SetTcp4(6), signer: Signer::Own }, Step { op: Op::SetSeq(9), signer: Signer::Other }]);
    go::<K256K>(ctx, Scheme::Secp);
    #[cfg(feature = "libsecp")]
    go::<LibsecpK>(ctx, Scheme::Secp);
    if cfg!(feature = "ed") {
        go::<EdK>(ctx, Scheme::Ed);
        go::<CombK>(ctx, Scheme::Secp);
    }
    go::<ToyK>(ctx, Scheme::Toy);
    // and the plain key types through the complete monitors afterwards
    for (kt, scheme) in kinds() {
        run_hist_kt(ctx, kt, false, &small(scheme), &RunOpts::default());
    }
}

/// A custom scheme whose signatures alone exceed 300 bytes: every build and update must fail with an error value
/// (never panic, never hand out a record), in every build profile.
pub fn long_signature_histories(ctx: &mut Ctx, opts: &RunOpts) {
    let own = crate::keys::LONG_TOY_LABEL | 1;
    let other = crate::keys::LONG_TOY_LABEL | 2;
    let own_pub = own_ref(Scheme::Toy, own).pub_bytes();
    let other_pub = own_ref(Scheme::Toy, other).pub_bytes();
    let mut n = 0u64;
    // builder with the long-signature key; a record of a NORMAL toy key updated with the long-signature key
    for entries in [vec![], vec![BEntry::Udp4(1)], vec![BEntry::Add(b"pad".to_vec(), Val::B(vec![1; 200]))]] {
        n += 1;
        if ctx.mine_few(n) {
            let h = mk_history(Scheme::Toy, own, other, &Init::Build(entries), vec![]);
            run_hist_kt(ctx, KT::Toy, false, &h, opts);
            ctx.count("long-signature-cases");
        }
    }
    let alpha = sub_alphabet(Scheme::Toy, 1, &own_pub, &other_pub);
    for op in alpha {
        n += 1;
        if !ctx.mine(n) {
            continue;
        }
        // own = a normal toy key, other = the long-signature key: the step signed by Other must fail cleanly
        let h = mk_history(Scheme::Toy, OWN, other, &Init::Build(vec![BEntry::Udp4(1), BEntry::Add(b"x".to_vec(), Val::U8(1))]), vec![Step { op, signer: Signer::Other }, Step { op: Op::SetUdp4(3), signer: Signer::Own }]);
        run_hist_kt(ctx, KT::Toy, false, &h, opts);
        ctx.count("long-signature-cases");
    }
    // the other end: a key whose signatures are 1..8 bytes (records of ~50 bytes, one-byte signature items), as
    // the record's own key and as the re-keying key
    let short = crate::keys::SHORT_TOY_LABEL | 1;
    let short_pub = own_ref(Scheme::Toy, short).pub_bytes();
    let own_pub = own_ref(Scheme::Toy, OWN).pub_bytes();
    for (a, b, ap, bp) in [(short, OWN, &short_pub, &own_pub), (OWN, short, &own_pub, &short_pub)] {
        for op in sub_alphabet(Scheme::Toy, 1, ap, bp) {
            for who in [Signer::Own, Signer::Other] {
                n += 1;
                if !ctx.mine(n) {
                    continue;
                }
                let h = mk_history(Scheme::Toy, a, b, &Init::Build(vec![]), vec![Step { op: op.clone(), signer: who }, Step { op: Op::SetUdp4(3), signer: Signer::Own }]);
                run_hist_kt(ctx, KT::Toy, false, &h, opts);
                ctx.count("short-signature-cases");
            }
        }
    }
}

pub fn c05(ctx: &mut Ctx) {
    let opts = RunOpts::default();
    let q = ctx.quick();
    exhaustive_len1(ctx, false, &opts, &all);
    long_signature_histories(ctx, &opts);
    byte_value_histories(ctx, &opts);
    concurrency_probe(ctx, false, true);
    fault_len1(ctx, &opts);
    signer_panic_probe(ctx);
    fault_histories(ctx, if q { 400 } else { 20_000 }, &opts);
    builder_plans(ctx, &opts);
    if q {
        exhaustive_sub(ctx, 2, &["built-typical", "decoded-size-299"], &opts, &all);
        random_histories(ctx, 700, 30, 80, &opts, &all);
    } else {
        exhaustive_sub(ctx, 2, &["built", "decoded"], &opts, &all);
        exhaustive_sub(ctx, 3, &["built-typical", "decoded-size-297"], &RunOpts { full_state_checks: false, keep_states: false }, &|k, _| k != KT::Comb);
        random_histories(ctx, 40_000, 50, 200, &opts, &all);
    }
}

pub fn c08(ctx: &mut Ctx) {
    c05(ctx)
}

pub fn c04(ctx: &mut Ctx) {
    let q = ctx.quick();
    wdec(ctx, DecPlan {
        fixed_bases: if q { 64 } else { 128 },
        seeded_bases: if q { 128 } else { 6000 },
        byte_level: ByteLevel::Off,
        structural: true,
        tampers: false,
        size_sweep_every: 4,
        unstructured: 0,
        text: true,
        both_keys: true,
        tag_sweep: false,
    });
    let opts = RunOpts::default();
    exhaustive_len1(ctx, false, &opts, &all);
    builder_plans(ctx, &opts);
    byte_value_histories(ctx, &opts);
    fault_histories(ctx, if q { 300 } else { 15_000 }, &opts);
    random_histories(ctx, if q { 500 } else { 30_000 }, 30, 120, &opts, &all);
}

pub fn c07(ctx: &mut Ctx) {
    let opts = RunOpts { full_state_checks: false, keep_states: false };
    let q = ctx.quick();
    exhaustive_len1(ctx, false, &opts, &all);
    concurrency_probe(ctx, false, true);
    exhaustive_sub(ctx, 2, &["built-seq", "decoded-size-298"], &opts, &all);
    random_histories(ctx, if q { 600 } else { 40_000 }, 30, 150, &opts, &all);
    // encoding/decoding preserves the number: RefSig-signed records with seq = v
    let total = ctx.vol(if q { 4000 } else { 300_000 });
    for i in 0..total {
        if !ctx.mine(i) {
            continue;
        }
        if ctx.expired() {
            break;
        }
        let mut r = rng_for(ctx.seed, &["c07-seq"], i);
        let v = if (i as usize) < 400 {
            let e = gen::SEQ_EDGES[i as usize % gen::SEQ_EDGES.len()];
            e.wrapping_add((i / gen::SEQ_EDGES.len() as u64) % 3).wrapping_sub(1)
        } else {
            rand::RngCore::next_u64(&mut r) >> below(&mut r, 64)
        };
        let scheme = crate::props::scheme_for_base(i);
        let rec = Rec::minimal(own_ref(scheme, OWN), v);
        let bytes = rec.bytes();
        for kt in crate::dec::kts() {
            if !kt.reads(scheme) {
                continue;
            }
            let d = crate::dec::decode_kt(kt, &bytes);
            ctx.count("evaluations");
            ctx.count("c07.decode-seq-evals");
            ctx.distinct(crate::util::h64(&[&v.to_le_bytes(), kt.name().as_bytes()]));
            match &d.res {
                Ok(o) if o.seq == v => {}
                other => {
                    let got = other.as_ref().map(|o| o.seq).map_err(|e| e.clone());
                    ctx.violate("C07", "decode-does-not-preserve-seq", kt.name(), || format!("seq {v} decodes to {got:?}"), || {
                        json!({"kind": "input", "class": "seq", "entry": "decode", "kt": kt.name(), "hex": crate::util::hex(&bytes)})
                    });
                }
            }
        }
    }
}

/// C06: fault enumeration + every non-fault error cause on every mutator
pub fn c06(ctx: &mut Ctx) {
    let opts = RunOpts { full_state_checks: false, keep_states: false };
    let q = ctx.quick();
    // (1) non-fault causes: the full alphabet (ill-typed, malformed, unsupported id) from all inits, incl.
    //     the size-300 and seq-MAX ones
    exhaustive_len1(ctx, false, &opts, &all);
    concurrency_probe(ctx, false, true);
    signer_panic_probe(ctx);
    // (2) signer faults by enumeration
    let fault_kinds: Vec<(KT, Scheme)> = kinds()
        .into_iter()
        .filter(|(k, _)| if q { matches!(k, KT::K256 | KT::Ed | KT::Toy) } else { true })
        .collect();
    let mut n = 0u64;
    for (kt, scheme) in fault_kinds {
        let own_pub = own_ref(scheme, OWN).pub_bytes();
        let other_pub = own_ref(scheme, OTHER).pub_bytes();
        for (name, seq, init) in inits(scheme, OWN) {
            let deep = name == "built-typical" || name.starts_with("decoded-size-299") || name.starts_with("decoded-size-300-seq-5");
            if q && !(deep || name == "built-minimal" || name.starts_with("built-seq-255") || name == "decoded-uncompressed-key-0") {
                continue;
            }
            let alpha = if deep { alphabet(scheme, seq, &own_pub, &other_pub) } else { sub_alphabet(scheme, seq, &own_pub, &other_pub) };
            let sub = sub_alphabet(scheme, seq, &own_pub, &other_pub);
            // length-1 over alpha, length-2 over sub (second step faulted too)
            let mut seqs: Vec<Vec<Step>> = Vec::new();
            for op in &alpha {
                for signer in [Signer::Own, Signer::Other] {
                    seqs.push(vec![Step { op: op.clone(), signer }]);
                }
            }
            if deep || !q {
                for (i, a) in sub.iter().enumerate() {
                    for (j, b) in sub.iter().enumerate() {
                        if q && (i + j) % 4 != 0 {
                            continue;
                        }
                        seqs.push(vec![Step { op: a.clone(), signer: Signer::Own }, Step { op: b.clone(), signer: Signer::Own }]);
                    }
                }
            }
            for steps in seqs {
                n += 1;
                if !ctx.mine(n) {
                    continue;
                }
                if ctx.expired() {
                    ctx.count("deadline-stops");
                    return;
                }
                let mut h = mk_history(scheme, OWN, OTHER, &init, steps);
                // counting run (no fault) to learn the number of signing calls of each key
                let st = run_hist_kt(ctx, kt, true, &h, &opts);
                ctx.count("fault.counting-runs");
                for (who, calls) in [(Signer::Own, st.sign_calls_own), (Signer::Other, st.sign_calls_other)] {
                    for at in 1..=calls {
                        h.fault = Some((who, at));
                        run_hist_kt(ctx, kt, true, &h, &opts);
                        ctx.count("fault.injected-runs");
                    }
                }
            }
        }
    }
    // (3) random histories with a random fault position
    let total = ctx.vol(if q { 300 } else { 20_000 });
    let ks = kinds();
    for i in 0..total {
        if !ctx.mine(i) {
            continue;
        }
        if ctx.expired() {
            return;
        }
        let mut r = rng_for(ctx.seed, &["c06-rand"], i);
        let (kt, scheme) = ks[(i / ctx.nshards) as usize % ks.len()];
        let mut h = { let len = 20 + below(&mut r, 40) as usize; random_history(&mut r, scheme, len) };
        h.fault = Some((Signer::Own, 1 + below(&mut r, 30)));
        run_hist_kt(ctx, kt, true, &h, &opts);
        ctx.count("fault.random-runs");
    }
}

/// C09: result sizes swept 280..=320 for every mutator, crossed with seq classes whose increment grows
pub fn c09(ctx: &mut Ctx) {
    let opts = RunOpts { full_state_checks: false, keep_states: false };
    let q = ctx.quick();
    // a scheme whose signatures alone exceed the limit, and one with tiny signatures, BEFORE everything else: what
    // the size checks remember of them must not leak into the builds and updates of the other key types
    long_signature_histories(ctx, &opts);
    let k = |s: &str| s.as_bytes().to_vec();
    let ops: Vec<Op> = vec![
        Op::Insert(k("big"), Val::B(vec![0x42; 30])),
        Op::InsertRaw(k("big"), rlp::enc_str(&[0x43; 28])),
        Op::SetIp("2001:db8::5".parse().unwrap()),
        Op::SetIp("7.7.7.7".parse().unwrap()),
        Op::SetUdp4(40_000),
        Op::SetTcp6(9),
        Op::SetUdpSocket("[2001:db8::9]:30303".parse().unwrap()),
        Op::SetTcpSocket("8.8.4.4:443".parse().unwrap()),
        Op::SetClientInfo("Teku".into(), "v24.1.0".into(), Some("x86_64-linux".into())),
        Op::RemoveInsert(vec![k("x")], vec![(k("y"), vec![0x31; 26]), (k("udp"), vec![0x12, 0x34])]),
        // a later pair SHRINKS an existing value: only the intermediate state would exceed the limit
        Op::RemoveInsert(vec![], vec![(k("grow"), vec![0x31; 28]), (k("shrink"), vec![])]),
        Op::RemoveInsert(vec![], vec![(k("shrink"), vec![0x32; 60]), (k("shrink"), vec![1])]),
        // a key of 56 bytes (two-byte RLP header for the key itself)
        Op::Insert(vec![b'k'; 56], Val::B(vec![0x44; 3])),
        Op::RemoveKey(k("x")),
        Op::RemoveUdp4,
        Op::RemoveTcpSocket,
        Op::SetPublicKey(PkArg::OfSigner),
        Op::SetSeq(u64::MAX),
        Op::SetSeq(0x1_0000_0000),
    ];
    let seqs: Vec<u64> = if q { vec![0, 1, 127, 255, 65_535, u64::MAX - 1] } else { vec![0, 1, 126, 127, 255, 65_535, 0xff_ffff, 0xffff_ffff, 0xffff_ffff_ffff, u64::MAX - 1] };
    let mut n = 0u64;
    for (kt, scheme) in kinds() {
        let key = own_ref(scheme, OWN);
        let other = own_ref(scheme, OTHER);
        let ms = MSigner { scheme, pubkey: key.pub_bytes(), sig_len: if scheme == Scheme::Toy { None } else { Some(64) } };
        let ms_other = MSigner { scheme, pubkey: other.pub_bytes(), sig_len: ms.sig_len };
        for op in &ops {
            for &seq in &seqs {
                for target in 280..=320usize {
                    n += 1;
                    if !ctx.mine(n) {
                        continue;
                    }
                    if ctx.expired() {
                        ctx.count("deadline-stops");
                        return;
                    }
                    // find a padding length such that the *result* of op is exactly `target` bytes
                    let mut found = None;
                    for pad in 0..300usize {
                        let mut rec = Rec::minimal(key, seq);
                        rec.map.insert(b"x".to_vec(), Item::S(vec![1, 2, 3]));
                        rec.map.insert(b"udp".to_vec(), Item::S(vec![0x11, 0x11]));
                        rec.map.insert(b"shrink".to_vec(), Item::S(vec![0x77; 30]));
                        rec.map.insert(b"pad".to_vec(), Item::S(vec![0xa5; pad]));
                        let pairs: Pairs = rec.map.iter().map(|(k, v)| (k.clone(), rlp::enc_item(v))).collect();
                        let pred = predict(seq, &pairs, op, &ModelCtx { signer: &ms, nonsigner: &ms_other, alt: None });
                        let rs = record_size(&ms, pred.seq, &pred.pairs);
                        if rs == target {
                            found = Some(rec);
                            break;
                        }
                        if rs > target + 3 {
                            break;
                        }
                    }
                    let rec = match found {
                        Some(r) => r,
                        None => {
                            ctx.count("c09.target-unreachable");
                            continue;
                        }
                    };
                    if rec.size() > 300 {
                        ctx.count("c09.init-would-exceed");
                        continue;
                    }
                    ctx.count(&format!("gate.c09.target.{}.{}", op.family(), if target <= 300 { "le300" } else { "gt300" }));
                    if target == 300 || target == 301 {
                        ctx.count(&format!("gate.c09.boundary.{}.{target}", op.name()));
                    }
                    let h = mk_history(scheme, OWN, OTHER, &Init::Decode(rec.bytes()), vec![Step { op: op.clone(), signer: Signer::Own }]);
                    ctx.distinct(crate::util::h64(&[op.name().as_bytes(), &(target as u64).to_le_bytes(), &seq.to_le_bytes(), kt.name().as_bytes()]));
                    run_hist_kt(ctx, kt, false, &h, &opts);
                    ctx.count("c09.targeted-cases");
                }
            }
        }
    }
    // an otherwise EMPTY record and one inserted pair whose size alone carries the result over the sweep
    for (kt, scheme) in kinds() {
        let key = own_ref(scheme, OWN);
        let other = own_ref(scheme, OTHER);
        let ms = MSigner { scheme, pubkey: key.pub_bytes(), sig_len: if scheme == Scheme::Toy { None } else { Some(64) } };
        let ms_other = MSigner { scheme, pubkey: other.pub_bytes(), sig_len: ms.sig_len };
        for &seq in &[1u64, 127, 255] {
            for len in 120..=230usize {
                n += 1;
                if !ctx.mine(n) {
                    continue;
                }
                if ctx.expired() {
                    return;
                }
                let rec = Rec::minimal(key, seq);
                let op = if len % 2 == 0 { Op::Insert(k("v"), Val::B(vec![0x21; len])) } else { Op::InsertRaw(k("v"), rlp::enc_str(&vec![0x21; len])) };
                let pairs: Pairs = rec.map.iter().map(|(k, v)| (k.clone(), rlp::enc_item(v))).collect();
                let pred = predict(seq, &pairs, &op, &ModelCtx { signer: &ms, nonsigner: &ms_other, alt: None });
                let rs = record_size(&ms, pred.seq, &pred.pairs);
                if !(280..=320).contains(&rs) {
                    continue;
                }
                ctx.count("c09.minimal-record-cases");
                let h = mk_history(scheme, OWN, OTHER, &Init::Decode(rec.bytes()), vec![Step { op, signer: Signer::Own }]);
                run_hist_kt(ctx, kt, false, &h, &opts);
            }
        }
    }
    // CombinedKey records near the limit re-keyed ACROSS schemes (adds a second public-key entry): the bound holds
    if cfg!(feature = "ed") {
        for scheme in [Scheme::Ed, Scheme::Secp] {
            let key = own_ref(scheme, OWN);
            for target in (250..=300usize).step_by(2) {
                n += 1;
                if !ctx.mine(n) {
                    continue;
                }
                let mut rec = Rec::minimal(key, 70_000);
                rec.map.insert(b"x".to_vec(), Item::S(vec![1]));
                if let Some(r2) = gen::pad_to(&rec, b"pad", target) {
                    for op in [Op::SetSeq(5), Op::SetSeq(70_000), Op::SetUdp4(9), Op::RemoveKey(k("x")), Op::SetPublicKey(PkArg::OfSigner)] {
                        let h = mk_history(scheme, OWN, OTHER, &Init::Decode(r2.bytes()), vec![Step { op, signer: Signer::Alt }]);
                        run_hist_kt(ctx, KT::Comb, false, &h, &opts);
                        ctx.count("c09.cross-scheme-cases");
                    }
                }
            }
        }
    }
    builder_plans(ctx, &opts);
    random_histories(ctx, if q { 300 } else { 30_000 }, 40, 160, &opts, &all);
    // decoder side of the bound
    wdec(ctx, DecPlan {
        fixed_bases: 24,
        seeded_bases: if q { 24 } else { 2000 },
        byte_level: ByteLevel::Off,
        structural: false,
        tampers: false,
        size_sweep_every: 1,
        unstructured: 0,
        text: false,
        both_keys: false,
        tag_sweep: false,
    });
}

pub fn c10(ctx: &mut Ctx) {
    c10_decode_part(ctx);
    let opts = RunOpts { full_state_checks: false, keep_states: false };
    exhaustive_len1(ctx, false, &opts, &all);
    fault_len1(ctx, &opts);
    fault_histories(ctx, if ctx.quick() { 200 } else { 10_000 }, &opts);
    random_histories(ctx, if ctx.quick() { 400 } else { 30_000 }, 30, 120, &opts, &all);
    same_key_different_content(ctx);
}

/// two records with the same key have the same id whatever their content (built through the library)
fn same_key_different_content(ctx: &mut Ctx) {
    use crate::hist::apply_build;
    use crate::keys::*;
    fn go<KK: KeyKind>(ctx: &mut Ctx, scheme: Scheme, label: u64) {
        let secret = secret_from(scheme, label);
        let k = KK::make(scheme, &secret);
        let a = apply_build(&[], &k);
        let b = apply_build(&[BEntry::Seq(77), BEntry::Udp4(9), BEntry::Add(b"zz".to_vec(), Val::B(vec![1; 40]))], &k);
        if let (Ok(a), Ok(b)) = (a, b) {
            ctx.count("evaluations");
            ctx.count("c10.same-key-pairs");
            if a.node_id() != b.node_id() {
                ctx.violate("C10", "same-key-different-node-id", &KK::name(), || "two records built with one key have different ids".into(), || {
                    json!({"kind": "note", "what": "same-key-different-content", "scheme": scheme.name(), "label": label})
                });
            }
            let want = crate::refimpl::sig::node_id(scheme, &crate::refimpl::sig::RefKey::new(scheme, secret).pub_bytes());
            if Some(a.node_id().raw()) != want {
                ctx.violate("C10", "node-id-not-hash-of-stored-key", &format!("build/{}", KK::name()), || "built record".into(), || {
                    json!({"kind": "note", "what": "same-key-different-content", "scheme": scheme.name(), "label": label})
                });
            }
        }
    }
    let n = ctx.vol(if ctx.quick() { 200 } else { 5000 });
    for i in 0..n {
        if !ctx.mine(i) {
            continue;
        }
        let label = ctx.seed.wrapping_mul(77_777).wrapping_add(i);
        go::<K256K>(ctx, Scheme::Secp, label);
        #[cfg(feature = "libsecp")]
        go::<LibsecpK>(ctx, Scheme::Secp, label);
        if cfg!(feature = "ed") {
            go::<EdK>(ctx, Scheme::Ed, label);
            go::<CombK>(ctx, Scheme::Secp, label);
            go::<CombK>(ctx, Scheme::Ed, label);
        }
        go::<ToyK>(ctx, Scheme::Toy, label);
    }
}

/// C11: decode part + records built/updated through each back-end re-decoded under every other
pub fn c11(ctx: &mut Ctx) {
    c11_decode_part(ctx);
    let opts = RunOpts { full_state_checks: false, keep_states: true };
    let total = ctx.vol(if ctx.quick() { 400 } else { 30_000 });
    let ks: Vec<(KT, Scheme)> = kinds().into_iter().filter(|(k, _)| *k != KT::Toy).collect();
    for i in 0..total {
        if !ctx.mine(i) {
            continue;
        }
        if ctx.expired() {
            return;
        }
        let mut r = rng_for(ctx.seed, &["c11-hist"], i);
        let (kt, scheme) = ks[(i / ctx.nshards) as usize % ks.len()];
        let h = { let len = 8 + below(&mut r, 10) as usize; random_history(&mut r, scheme, len) };
        let st = run_hist_kt(ctx, kt, false, &h, &opts);
        // every state the back-end produced must be accepted, identically, by every type reading that scheme
        for o in st.states.iter().rev().take(4) {
            for other in crate::dec::builtin_kts() {
                if other == kt || !other.reads(scheme) {
                    continue;
                }
                // a CombinedKey reading a record that also carries a *valid* secp256k1 entry verifies against that
                let d = crate::dec::decode_kt(other, &o.enc);
                ctx.count("evaluations");
                ctx.count(&format!("c11.cross-redecode.{}-to-{}", kt.name(), other.name()));
                let ok = match &d.res {
                    Ok(o2) => o2.seq == o.seq && o2.pairs == o.pairs && o2.sig == o.sig && o2.node_id == o.node_id && o2.pubkey == o.pubkey,
                    Err(_) => false,
                };
                if !ok {
                    // excluded: ed25519-signed record that carries a valid foreign secp256k1 entry (C05 corner)
                    let foreign = scheme == Scheme::Ed && o.get(b"secp256k1").is_some();
                    if foreign {
                        ctx.count("c11.skipped-foreign-secp-entry");
                        continue;
                    }
                    ctx.violate("C11", "record-of-one-backend-rejected-by-another", &format!("{}-to-{}", kt.name(), other.name()), || {
                        format!("record produced through {} is not read identically by {}: {:?}", kt.name(), other.name(), d.res.as_ref().err())
                    }, || json!({"kind": "input", "class": "cross-redecode", "entry": "decode", "kt": other.name(), "hex": crate::util::hex(&o.enc)}));
                }
            }
        }
    }
}

pub fn c03_hist_part(ctx: &mut Ctx) {
    let opts = RunOpts::default();
    let q = ctx.quick();
    if !cfg!(miri) {
        byte_value_histories(ctx, &opts);
        long_signature_histories(ctx, &opts);
        concurrency_probe(ctx, true, true);
        signer_panic_probe(ctx);
    }
    if cfg!(miri) {
        // seeded short Toy histories with the complete accessor sweep, until the deadline
        random_histories(ctx, 1_000_000_000, 2, 5, &opts, &all);
        return;
    }
    exhaustive_len1(ctx, false, &opts, &all);
    if std::env::var("ENRMON_DEBUG").is_ok() { eprintln!("c03: len1 done {:?}", ctx.start.elapsed()); }
    builder_plans(ctx, &opts);
    if std::env::var("ENRMON_DEBUG").is_ok() { eprintln!("c03: builder done {:?}", ctx.start.elapsed()); }
    if !q {
        exhaustive_sub(ctx, 2, &["built-typical", "decoded-nested"], &opts, &all);
    }
    random_histories(ctx, if q { 500 } else { 30_000 }, 30, 150, &opts, &all);
}


/// a random sequence of builder calls: every method, repeated and overriding each other, in any order
pub fn random_plan(mut r: &mut rand_chacha::ChaCha8Rng, nent: usize) -> Vec<BEntry> {
    let mut p: Vec<BEntry> = Vec::new();
            for _ in 0..nent {
                p.push(match below(&mut r, 13) {
                    0 => BEntry::Seq(if below(&mut r, 2) == 0 { *crate::util::pick(&mut r, &gen::SEQ_EDGES) } else { rand::RngCore::next_u64(&mut r) }),
                    1 => BEntry::Ip4([below(&mut r, 256) as u8, 0, 0, 1]),
                    2 => BEntry::Ip6([below(&mut r, 256) as u8; 16]),
                    3 => BEntry::Ip(*crate::util::pick(&mut r, &["::ffff:1.2.3.4".parse().unwrap(), "9.9.9.9".parse().unwrap(), "::".parse().unwrap(), "fe80::1".parse().unwrap()])),
                    4 => BEntry::Tcp4(*crate::util::pick(&mut r, &gen::PORT_EDGES)),
                    5 => BEntry::Tcp6(*crate::util::pick(&mut r, &gen::PORT_EDGES)),
                    6 => BEntry::Udp4(rand::RngCore::next_u32(&mut r) as u16),
                    7 => BEntry::Udp6(*crate::util::pick(&mut r, &gen::PORT_EDGES)),
                    8 => BEntry::Client(gen::random_string(&mut r).chars().take(12).collect(), "v".into(), if below(&mut r, 2) == 0 { None } else { Some("b".into()) }),
                    9 => {
                        let n = [0usize, 1, 55, 56, 3][below(&mut r, 5) as usize];
                        BEntry::Add(gen::custom_key(&mut r), Val::B(crate::util::rand_bytes(&mut r, n)))
                    }
                    10 => BEntry::Add(gen::custom_key(&mut r), Val::U64(rand::RngCore::next_u64(&mut r) >> below(&mut r, 64))),
                    11 => BEntry::AddRaw(gen::custom_key(&mut r), rlp::enc_item(&gen::random_tree(&mut r, 2))),
                    _ => {
                        let n = below(&mut r, 6) as usize;
                        BEntry::AddRaw(gen::custom_key(&mut r), crate::util::rand_bytes(&mut r, n))
                    }
                });
            }
    p
}

/// ONE builder object, a build after every single call (own key, every third time the other key): each result
/// must be exactly what a FRESH builder given the same calls returns (those are judged against the model by
/// the plans above), and passes the complete state check.
pub fn incremental_builder(ctx: &mut Ctx) {
    use crate::keys::*;
    use crate::obs::observe;
    use enr::Enr;
    fn go<KK: KeyKind>(ctx: &mut Ctx, scheme: Scheme, plan: &[BEntry], i: u64) {
        let own = KK::make(scheme, &secret_from(scheme, OWN));
        let other = KK::make(scheme, &secret_from(scheme, OTHER));
        let replay = || json!({"kind": "note", "what": "incremental-builder", "kt": KK::name(), "plan": serde_json::to_value(plan).unwrap(), "case": i});
        let mut b = Enr::<KK::K>::builder();
        for (n, e) in plan.iter().enumerate() {
            let key = if n % 3 == 2 { &other } else { &own };
            let r = crate::util::guard(|| {
                crate::hist::apply_entry(&mut b, e);
                let reused = b.build(key);
                let fresh = crate::hist::apply_build::<KK::K>(&plan[..=n], key);
                (reused.map(|e| (observe(&e), e)), fresh.map(|e| observe(&e)))
            });
            ctx.count("evaluations");
            ctx.count("incremental-builds");
            match r {
                Err(p) => {
                    ctx.violate("C03", "panic", &format!("incremental-builder/{}", crate::util::panic_sig(&p)), || p.clone(), replay);
                    return;
                }
                Ok((Ok((Ok(a), e)), Ok(Ok(f)))) => {
                    if a.pairs != f.pairs || a.seq != f.seq || a.node_id != f.node_id || a.verify != f.verify {
                        for prop in ["C08", "C05", "C04", "C07", "C10", "C14"] {
                            ctx.violate(prop, "reused-builder-differs-from-fresh-builder", &format!("{}/call-{n}", KK::name()), || {
                                format!("{}: build after call #{n} on a re-used builder: seq {} vs {}, pairs equal {}, node id equal {}, verify {} vs {}", KK::name(), a.seq, f.seq, a.pairs == f.pairs, a.node_id == f.node_id, a.verify, f.verify)
                            }, replay);
                        }
                    }
                    if !crate::hist::check_state::<KK>(ctx, &e, &a, "incremental-builder", &RunOpts::default(), &replay) {
                        return;
                    }
                }
                Ok((Err(_), Err(_))) => {}
                Ok((a, f)) => {
                    let (ra, rf) = (a.is_ok(), f.is_ok());
                    if ra != rf {
                        for prop in ["C08", "C09"] {
                            ctx.violate(prop, "reused-builder-differs-from-fresh-builder", &format!("{}/call-{n}/ok-vs-err", KK::name()), || {
                                format!("{}: build after call #{n}: re-used builder ok={ra}, fresh builder ok={rf}", KK::name())
                            }, replay);
                        }
                    } else {
                        ctx.violate("C03", "panic", "incremental-builder/observe", || "accessors panic on a built record".into(), replay);
                    }
                    return;
                }
            }
        }
    }
    let total = ctx.vol(if ctx.quick() { 160 } else { 12_000 });
    let ks = kinds();
    for i in 0..total {
        if !ctx.mine(i) {
            continue;
        }
        if ctx.expired() {
            return;
        }
        let mut r = rng_for(ctx.seed, &["incr-builder"], i);
        let (kt, scheme) = ks[(i / ctx.nshards) as usize % ks.len()];
        let nent = 2 + below(&mut r, 7) as usize;
        let mut plan = random_plan(&mut r, nent);
        // a call that changes ONLY the sequence number, right after a build
        let at = 1 + below(&mut r, plan.len() as u64) as usize;
        plan.insert(at.min(plan.len()), BEntry::Seq(2 + below(&mut r, 1000)));
        // an ill-typed reserved entry (the build after it must FAIL) that a later call corrects (the build after
        // that must succeed with everything that was set before)
        if below(&mut r, 2) == 0 {
            let (bad, good) = match below(&mut r, 4) {
                0 => (BEntry::AddRaw(b"tcp".to_vec(), vec![0x82, 0x00, 0x01]), BEntry::Tcp4(7)),
                1 => (BEntry::Add(b"udp".to_vec(), Val::Str("hello".into())), BEntry::Udp4(8)),
                2 => (BEntry::AddRaw(b"ip".to_vec(), vec![0x83, 1, 2, 3]), BEntry::Ip4([1, 2, 3, 4])),
                _ => (BEntry::AddRaw(b"id".to_vec(), vec![0x82, b'v', b'5']), BEntry::AddRaw(b"id".to_vec(), vec![0x82, b'v', b'4'])),
            };
            let a = below(&mut r, plan.len() as u64 + 1) as usize;
            plan.insert(a, bad);
            let b = a + 1 + below(&mut r, (plan.len() - a) as u64) as usize;
            plan.insert(b.min(plan.len()), good);
        }
        match kt {
            KT::K256 => go::<K256K>(ctx, scheme, &plan, i),
            #[cfg(feature = "libsecp")]
            KT::Libsecp => go::<LibsecpK>(ctx, scheme, &plan, i),
            #[cfg(not(feature = "libsecp"))]
            KT::Libsecp => {}
            KT::Ed => go::<EdK>(ctx, scheme, &plan, i),
            KT::Comb => go::<CombK>(ctx, scheme, &plan, i),
            KT::Toy => go::<ToyK>(ctx, scheme, &plan, i),
        }
    }
}

fn builder_reuse(ctx: &mut Ctx) {
    use crate::keys::*;
    use crate::obs::observe;
    use enr::Enr;
    fn go<KK: KeyKind>(ctx: &mut Ctx, scheme: Scheme) {
        let own = KK::make(scheme, &secret_from(scheme, OWN));
        let other = KK::make(scheme, &secret_from(scheme, OTHER));
        let pub_of = |label: u64| own_ref(scheme, label).pub_bytes();
        // Enr::empty(key) is the record the default builder builds
        match crate::util::guard(|| (Enr::<KK::K>::empty(&own).map(|e| observe(&e)), crate::hist::apply_build::<KK::K>(&[], &own).map(|e| observe(&e)))) {
            Ok((Ok(Ok(a)), Ok(Ok(b)))) => {
                ctx.count("evaluations");
                if a.pairs != b.pairs || a.seq != b.seq || a.node_id != b.node_id || !a.verify {
                    ctx.violate("C08", "pairs-differ-from-model", "Enr::empty", || format!("{}: Enr::empty differs from the default builder's record", KK::name()), || json!({"kind": "note", "what": "Enr::empty", "kt": KK::name()}));
                }
            }
            Ok(_) => ctx.violate("C08", "error-without-cause", "Enr::empty", || format!("{}: Enr::empty failed", KK::name()), || json!({"kind": "note", "what": "Enr::empty", "kt": KK::name()})),
            Err(p) => ctx.violate("C03", "panic", &format!("Enr::empty/{}", crate::util::panic_sig(&p)), || p.clone(), || json!({"kind": "note", "what": "Enr::empty", "kt": KK::name()})),
        }
        let r = crate::util::guard(|| {
            let mut b = Enr::<KK::K>::builder();
            b.udp4(7).add_value("x", &3u8);
            let first = b.build(&own);
            let second = b.build(&own);
            b.tcp4(9);
            let third = b.build(&other);
            // a typed, well-formed but ill-typed value under a reserved key AFTER successful builds
            b.add_value("udp", &"hello");
            let fourth = b.build(&own);
            let mut b2 = Enr::<KK::K>::builder();
            b2.add_value("x", &1u8);
            let _ = b2.build(&own);
            b2.add_value_rlp("tcp", bytes::Bytes::from_static(&[0x82, 0x00, 0x01]));
            let fifth = b2.build(&own);
            if fourth.is_ok() || fifth.is_ok() {
                return Err(format!("build #4 ok={} build #5 ok={}", fourth.is_ok(), fifth.is_ok()));
            }
            Ok((first, second, third))
        });
        let r = match r {
            Ok(Err(msg)) => {
                ctx.violate("C08", "ok-despite-cause", "build-reuse/ill-typed", || format!("{}: a re-used builder accepted an ill-typed reserved value: {msg}", KK::name()), || json!({"kind": "note", "what": "builder-reuse", "kt": KK::name()}));
                ctx.violate("C05", "not-accepted-again-by-decoder", "build-reuse/ill-typed", || format!("{}: {msg}", KK::name()), || json!({"kind": "note", "what": "builder-reuse", "kt": KK::name()}));
                return;
            }
            Ok(Ok(v)) => Ok(v),
            Err(p) => Err(p),
        };
        ctx.count("evaluations");
        ctx.count("builder-reuse");
        let replay = || json!({"kind": "note", "what": "builder-reuse", "kt": KK::name()});
        match r {
            Err(p) => ctx.violate("C03", "panic", &format!("builder-reuse/{}", crate::util::panic_sig(&p)), || p.clone(), replay),
            Ok((a, b2, c)) => {
                for (i, (res, signer, tcp)) in [(a, OWN, false), (b2, OWN, false), (c, OTHER, true)].into_iter().enumerate() {
                    match res {
                        Ok(e) => {
                            if let Ok(o) = observe(&e) {
                                let ms = MSigner { scheme, pubkey: pub_of(signer), sig_len: if scheme == Scheme::Toy { None } else { Some(64) } };
                                let mut entries = vec![BEntry::Udp4(7), BEntry::Add(b"x".to_vec(), Val::U8(3))];
                                if tcp {
                                    entries.push(BEntry::Tcp4(9));
                                }
                                let pred = predict_build(&entries, &ms);
                                let got: Pairs = o.pairs.iter().cloned().collect();
                                if got != pred.pairs || o.seq != 1 {
                                    ctx.violate("C08", "pairs-differ-from-model", "build-reuse", || format!("{}: build #{i} from a re-used builder", KK::name()), replay);
                                }
                                crate::hist::check_state::<KK>(ctx, &e, &o, "build-reuse", &RunOpts::default(), &replay);
                            }
                        }
                        Err(er) => ctx.violate("C08", "error-without-cause", "build-reuse", || format!("{}: build #{i} from a re-used builder failed: {er:?}", KK::name()), replay),
                    }
                }
            }
        }
    }
    if !ctx.mine(7) {
        return;
    }
    go::<K256K>(ctx, Scheme::Secp);
    #[cfg(feature = "libsecp")]
    go::<LibsecpK>(ctx, Scheme::Secp);
    if cfg!(feature = "ed") {
        go::<EdK>(ctx, Scheme::Ed);
        go::<CombK>(ctx, Scheme::Secp);
        go::<CombK>(ctx, Scheme::Ed);
    }
    go::<ToyK>(ctx, Scheme::Toy);
}
