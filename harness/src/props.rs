//! Per-property workloads. Each `cNN` drives the real library with its workload and lets the monitors
//! (decmon, hist) judge every call; the supervisor keeps only the violations of the property asked for.

use crate::dec;
use crate::decmon::{judge_input, JudgeOpts};
use crate::gen::{self, Rec};
use crate::refimpl::decode::KT;
use crate::refimpl::rlp::{self, Item};
use crate::refimpl::sig::{RefKey, Scheme};
use crate::report::Ctx;
use crate::util::{below, rng_for};
use rand::RngCore;
use serde_json::json;

pub use crate::props_hist::*;
pub use crate::props_misc::*;

pub fn run(ctx: &mut Ctx) {
    match ctx.prop.clone().as_str() {
        "C01" => c01(ctx),
        "C02" => c02(ctx),
        "C03" => c03(ctx),
        "C04" => c04(ctx),
        "C05" => c05(ctx),
        "C06" => c06(ctx),
        "C07" => c07(ctx),
        "C08" => c08(ctx),
        "C09" => c09(ctx),
        "C10" => c10(ctx),
        "C11" => c11(ctx),
        "C12" => c12(ctx),
        "C13" => c13(ctx),
        "C14" => c14(ctx),
        "C15" => c15(ctx),
        "C16" => c16(ctx),
        "C17" => c17(ctx),
        p => {
            ctx.notes.push(format!("unknown property {p}"));
        }
    }
}

/// key pools per scheme, built on first use (so that the Miri runs never touch secp256k1 / ed25519)
pub struct Pools {
    cells: [std::cell::OnceCell<Vec<RefKey>>; 3],
}
impl Pools {
    pub fn new() -> Self {
        Self { cells: [std::cell::OnceCell::new(), std::cell::OnceCell::new(), std::cell::OnceCell::new()] }
    }
    pub fn get(&self, s: Scheme) -> &Vec<RefKey> {
        let i = match s {
            Scheme::Secp => 0,
            Scheme::Ed => 1,
            Scheme::Toy => 2,
        };
        self.cells[i].get_or_init(|| gen::key_pool(s, 7))
    }
}

#[derive(Clone, Copy, PartialEq, Eq)]
pub enum ByteLevel {
    Off,
    /// flips / truncations / deletions complete, edits and insertions one in `n`
    Sampled(u64),
    Complete,
}

#[derive(Clone, Copy)]
pub struct DecPlan {
    pub fixed_bases: u64,
    pub seeded_bases: u64,
    pub byte_level: ByteLevel,
    pub structural: bool,
    pub tampers: bool,
    pub size_sweep_every: u64,
    pub unstructured: u64,
    pub text: bool,
    pub both_keys: bool,
    pub tag_sweep: bool,
}

pub fn scheme_for_base(b: u64) -> Scheme {
    if cfg!(miri) {
        return Scheme::Toy;
    }
    [Scheme::Secp, Scheme::Ed, Scheme::Secp, Scheme::Toy, Scheme::Secp, Scheme::Ed][(b % 6) as usize]
}

/// W-DEC under the Miri interpreter (~10^4 x slower): one Toy base record per process, then a seeded
/// stream of cheap-to-generate hostile inputs (byte-level alterations, unstructured bytes) until the
/// phase deadline. The structural / re-signed classes are left to the native layers.
fn wdec_miri(ctx: &mut Ctx, plan: DecPlan) {
    let pool = gen::key_pool(Scheme::Toy, 7);
    let mut r0 = rng_for(ctx.seed, &["wdec-miri-base"], ctx.shard);
    let rec = gen::random_valid(&mut r0, &pool);
    let base = rec.bytes();
    ctx.count("bases");
    ctx.sample(|| json!({"class": "valid", "scheme": "toy", "hex": crate::util::hex(&base)}));
    judge_input(ctx, "valid", &base, JudgeOpts { text: plan.text });
    let mut i = 0u64;
    while !ctx.expired() {
        i += 1;
        let mut r = rng_for(ctx.seed, &["wdec-miri"], i * ctx.nshards + ctx.shard);
        let pos = below(&mut r, base.len() as u64) as usize;
        let (cls, m): (&str, Vec<u8>) = match below(&mut r, 7) {
            0 => {
                let mut v = base.clone();
                v[pos] ^= 1 << below(&mut r, 8);
                ("bit-flip", v)
            }
            1 => ("truncation", base[..pos].to_vec()),
            2 => {
                let mut v = base.clone();
                v.remove(pos);
                ("byte-deletion", v)
            }
            3 => {
                let mut v = base.clone();
                v.insert(pos, [0x00, 0x80, 0xff, 0xb8, 0xf8, 0xc1][below(&mut r, 6) as usize]);
                ("byte-insertion", v)
            }
            4 => {
                let mut v = base.clone();
                v[pos] = [0x00, 0xff, 0x80, 0xb7, 0xbf, 0xf7, 0xc0][below(&mut r, 7) as usize];
                ("byte-edit", v)
            }
            5 => {
                // header bytes of the outer list and of the signature item are where the unchecked
                // arithmetic of the RLP library sits
                let mut v = base.clone();
                let p = below(&mut r, 4.min(base.len() as u64)) as usize;
                v[p] = r.next_u32() as u8;
                ("header-edit", v)
            }
            _ => ("unstructured", gen::random_unstructured(&mut r)),
        };
        judge_input(ctx, cls, &m, JudgeOpts { text: plan.text && i % 5 == 0 });
    }
}

/// W-DEC
pub fn wdec(ctx: &mut Ctx, plan: DecPlan) {
    if cfg!(miri) {
        return wdec_miri(ctx, plan);
    }
    let pools = Pools::new();
    let pool = |s: Scheme| -> &Vec<RefKey> { pools.get(s) };
    let total = plan.fixed_bases + ctx.vol(plan.seeded_bases);
    let t = JudgeOpts { text: plan.text };
    let nt = JudgeOpts { text: false };
    for b in 0..total {
        if !ctx.mine(b) {
            continue;
        }
        if ctx.expired() {
            ctx.count("deadline-stops");
            break;
        }
        let mut r = if b < plan.fixed_bases { rng_for(0, &["wdec-fixed"], b) } else { rng_for(ctx.seed, &["wdec"], b) };
        let scheme = scheme_for_base(b);
        let rec = gen::random_valid(&mut r, pool(scheme));
        let bytes = rec.bytes();
        ctx.count("bases");
        ctx.sample(|| json!({"class": "valid", "scheme": scheme.name(), "hex": crate::util::hex(&bytes)}));
        // the canary is the SMALLEST valid record of the same key (a record with fewer pairs than the inputs judged
        // in between shows pairs that leaked from them)
        ctx.canary = Some(Rec::minimal(rec.key, 3).bytes());
        judge_input(ctx, "valid", &bytes, t);
        if cfg!(miri) && ctx.expired() {
            break;
        }
        // field-level tampers directly after the genuine record (what a stale "last verified" / "last key"
        // cache would let through), then the genuine record again after forged copies of it were refused
        let mut tampered_early = false;
        if plan.tampers && b % 2 == 0 {
            tampered_early = true;
            let other_key = pool(scheme).iter().copied().find(|k| *k != rec.key).unwrap_or(rec.key);
            let mut other_rec = gen::random_valid(&mut r, &[rec.key]);
            if other_rec.items() == rec.items() {
                other_rec.seq = other_rec.seq.wrapping_add(7);
            }
            for (cls, m) in gen::field_tampers(&rec, &other_key, &other_rec) {
                judge_input(ctx, cls, &m, nt);
                // ... and the genuine record straight after EACH refused forgery (state left behind by a
                // rejection — an unparsable signature, a failed verification — must not leak into the next call)
                judge_input(ctx, "valid-again", &bytes, nt);
            }
        }
        if plan.structural {
            for (cls, m) in gen::structural_mutants(&rec, &mut r) {
                judge_input(ctx, cls, &m, nt);
            }
            for (cls, m) in gen::header_flips(&bytes) {
                judge_input(ctx, cls, &m, nt);
            }
        }
        if plan.size_sweep_every > 0 && b % plan.size_sweep_every == 0 && !cfg!(miri) {
            for (cls, m) in gen::size_sweep(&rec) {
                judge_input(ctx, cls, &m, nt);
            }
        }
        if cfg!(miri) && ctx.expired() {
            break;
        }
        if plan.tampers && !tampered_early {
            let other_key = pool(scheme)[(below(&mut r, pool(scheme).len() as u64)) as usize];
            let other_key = if other_key == rec.key { pool(scheme)[(pool(scheme).iter().position(|k| *k == rec.key).unwrap() + 1) % pool(scheme).len()] } else { other_key };
            let mut other_rec = gen::random_valid(&mut r, &[rec.key]);
            if other_rec.items() == rec.items() {
                other_rec.seq = other_rec.seq.wrapping_add(7);
            }
            for (cls, m) in gen::field_tampers(&rec, &other_key, &other_rec) {
                judge_input(ctx, cls, &m, t);
            }
        }
        match plan.byte_level {
            ByteLevel::Off => {}
            _ if cfg!(miri) && ctx.expired() => {}
            bl => {
                for m in gen::bit_flips(&bytes) {
                    judge_input(ctx, "bit-flip", &m, nt);
                }
                for m in gen::truncations(&bytes) {
                    judge_input(ctx, "truncation", &m, nt);
                }
                for m in gen::deletions(&bytes) {
                    judge_input(ctx, "byte-deletion", &m, nt);
                }
                let every = match bl {
                    ByteLevel::Sampled(n) => n,
                    _ => 1,
                };
                for (i, m) in gen::byte_edits(&bytes).enumerate() {
                    if every == 1 || (i as u64 + b) % every == 0 {
                        judge_input(ctx, "byte-edit", &m, nt);
                    }
                }
                for (i, m) in gen::insertions(&bytes).enumerate() {
                    if every == 1 || (i as u64 + b) % every == 0 {
                        judge_input(ctx, "byte-insertion", &m, nt);
                    }
                }
            }
        }
        // the genuine record once more, after everything derived from it was shown to the decoder
        judge_input(ctx, "valid-again", &bytes, nt);
    }
    if plan.both_keys && !cfg!(miri) {
        // records with many short keys whose lexicographic order differs from any length-first order
        for (i, scheme) in [Scheme::Secp, Scheme::Ed, Scheme::Toy].into_iter().enumerate() {
            if !ctx.mine(900 + i as u64) {
                continue;
            }
            for variant in 0..3u64 {
                let mut rec = Rec::minimal(pool(scheme)[variant as usize % pool(scheme).len()], 40 + variant);
                for k in [&b"a"[..], b"aa", b"ab", b"b", b"ba", b"eth2", b"attnets", b"z", b"zz", b"A", b"~", b"\x01", b"i", b"j", b"secp", b"secp256k10"] {
                    rec.map.insert(k.to_vec(), Item::S(vec![k.len() as u8; (variant as usize + k.len()) % 3]));
                }
                if rec.size() <= 300 {
                    let bytes = rec.bytes();
                    judge_input(ctx, "valid-many-keys", &bytes, t);
                    for (cls, m) in gen::structural_mutants(&rec, &mut rng_for(ctx.seed, &["many-keys"], variant)) {
                        judge_input(ctx, cls, &m, nt);
                    }
                }
            }
        }
        both_keys(ctx);
        combined_scheme_order(ctx);
        negated_key_pairs(ctx);
        ed_small_order(ctx);
        for (i, scheme) in [Scheme::Secp, Scheme::Ed, Scheme::Toy].into_iter().enumerate() {
            if ctx.mine(5000 + i as u64) {
                for (cls, m) in gen::giant_records(&pool(scheme)[0]) {
                    judge_input(ctx, cls, &m, nt);
                }
            }
        }
        // byte-value sweeps and ground signatures (special byte values inside keys, values, signatures)
        for (i, scheme) in [Scheme::Secp, Scheme::Ed, Scheme::Toy].into_iter().enumerate() {
            if !ctx.mine(1000 + i as u64) {
                continue;
            }
            let key = pool(scheme)[0];
            for (cls, m) in gen::byte_sweep(&key) {
                judge_input(ctx, cls, &m, nt);
            }
        }
        for g in 0..(if ctx.quick() { 8u64 } else { 64 }) {
            if !ctx.mine(2000 + g) {
                continue;
            }
            let mut r = rng_for(ctx.seed, &["ground"], g);
            let rec = gen::random_valid(&mut r, pool(if g % 4 == 3 { Scheme::Ed } else { Scheme::Secp }));
            for (cls, m) in gen::ground_signatures(&rec, 4000) {
                judge_input(ctx, cls, &m, t);
                // drop / pad the (zero) leading bytes of r and s, re-framed
                if let Some((sg, _seq, _pairs)) = crate::refimpl::decode::structure(&m) {
                    let h = rlp::header(&m).unwrap();
                    let sig_item_len = rlp::header(&m[h.off..]).unwrap().total();
                    let rest = &m[h.off + sig_item_len..];
                    for alt in [sg[1..].to_vec(), [&sg[..32], &sg[33..]].concat(), [&[0u8][..], &sg[..]].concat(), sg[..63].to_vec()] {
                        let mut p = rlp::enc_str(&alt);
                        p.extend_from_slice(rest);
                        judge_input(ctx, "sig-leading-byte-dropped", &rlp::enc_list_payload(&p), nt);
                    }
                }
                // and its high-S twin / bit flips of the signature
                for f in gen::bit_flips(&m).skip(16).take(64 * 8) {
                    judge_input(ctx, "bit-flip", &f, nt);
                }
            }
        }
    }
    if plan.tag_sweep && !cfg!(miri) {
        tag_sweep(ctx);
    }
    let n = ctx.vol(plan.unstructured);
    for i in 0..n {
        if !ctx.mine(i) {
            continue;
        }
        if ctx.expired() {
            break;
        }
        let mut r = rng_for(ctx.seed, &["unstructured"], i);
        let m = gen::random_unstructured(&mut r);
        judge_input(ctx, "unstructured", &m, JudgeOpts { text: plan.text && i % 8 == 0 });
    }
}

/// records carrying both public-key entries in every validity combination, signed by either key
pub fn both_keys(ctx: &mut Ctx) {
    let secp = RefKey::new(Scheme::Secp, crate::keys::secret_from(Scheme::Secp, 0xb07));
    let secp2 = RefKey::new(Scheme::Secp, crate::keys::secret_from(Scheme::Secp, 0xb08));
    let ed = RefKey::new(Scheme::Ed, crate::keys::secret_from(Scheme::Ed, 0xb09));
    let ed2 = RefKey::new(Scheme::Ed, crate::keys::secret_from(Scheme::Ed, 0xb0a));
    let secp_alts: Vec<(&str, Option<Item>)> = vec![
        ("own", Some(Item::S(secp.pub_bytes()))),
        ("otherkey", Some(Item::S(secp2.pub_bytes()))),
        ("valid33-of-nobody", Some(Item::S(vec![0x02; 33]))),
        // the right length and tag, but no curve point: x off the curve (searched with RefPub), x >= p, x = 0
        ("offcurve33", Some(Item::S({
            let mut k = vec![0u8; 33];
            k[0] = 2;
            for x in 1..=255u8 {
                k[32] = x;
                if matches!(crate::refimpl::sig::pub_validity(Scheme::Secp, &k), crate::refimpl::sig::PubValidity::Invalid) {
                    break;
                }
            }
            k
        }))),
        ("x-ge-p-33", Some(Item::S({
            let mut k = vec![0xffu8; 33];
            k[0] = 3;
            k
        }))),
        ("zero33", Some(Item::S({
            let mut k = vec![0u8; 33];
            k[0] = 2;
            k
        }))),
        ("offcurve65", Some(Item::S({
            let mut k = vec![0x11u8; 65];
            k[0] = 4;
            k
        }))),
        ("tag05-33", Some(Item::S({
            let mut k = secp.pub_bytes();
            k[0] = 5;
            k
        }))),
        ("short", Some(Item::S(vec![1, 2, 3, 4, 5]))),
        ("list", Some(Item::L(vec![]))),
        ("missing", None),
    ];
    let ed_alts: Vec<(&str, Option<Item>)> = vec![
        ("own", Some(Item::S(ed.pub_bytes()))),
        ("otherkey", Some(Item::S(ed2.pub_bytes()))),
        ("short", Some(Item::S(vec![9; 5]))),
        ("list", Some(Item::L(vec![Item::S(vec![1])]))),
        ("missing", None),
    ];
    let mut n = 0u64;
    for (sn, sv) in &secp_alts {
        for (en, ev) in &ed_alts {
            for signer in [&secp, &ed] {
                n += 1;
                if !ctx.mine(n) {
                    continue;
                }
                let mut rec = Rec::minimal(*signer, 3);
                rec.map.remove(&b"secp256k1"[..]);
                rec.map.remove(&b"ed25519"[..]);
                if let Some(v) = sv {
                    rec.map.insert(b"secp256k1".to_vec(), v.clone());
                }
                if let Some(v) = ev {
                    rec.map.insert(b"ed25519".to_vec(), v.clone());
                }
                rec.map.insert(b"udp".to_vec(), Item::S(vec![0x76, 0x5f]));
                let cls = format!("both-keys/secp-{sn}/ed-{en}/signed-{}", signer.scheme.name());
                judge_input(ctx, &cls, &rec.bytes(), JudgeOpts { text: false });
            }
        }
    }
}

/// ed25519 records whose public key is a small-order point, with the signature R = identity, s = 0 (which the
/// cofactorless equation accepts when [h]A is the identity): an open region for C02, but the ed25519 key
/// type and CombinedKey must still agree on them (C11), and whatever is accepted must not break C03/C04.
pub fn ed_small_order(ctx: &mut Ctx) {
    let points: [&str; 10] = [
        "0100000000000000000000000000000000000000000000000000000000000000", // identity
        "ecffffffffffffffffffffffffffffffffffffffffffffffffffffffffffffff7f", // order 2
        "0000000000000000000000000000000000000000000000000000000000000000", // order 4
        "0000000000000000000000000000000000000000000000000000000000000080", // order 4
        // non-canonical encodings of small-order points (y >= p, or x = 0 with the sign bit set)
        "0100000000000000000000000000000000000000000000000000000000000080",
        "eeffffffffffffffffffffffffffffffffffffffffffffffffffffffffffffff7f",
        "eeffffffffffffffffffffffffffffffffffffffffffffffffffffffffffffffff",
        "edffffffffffffffffffffffffffffffffffffffffffffffffffffffffffffff7f",
        "edffffffffffffffffffffffffffffffffffffffffffffffffffffffffffffffff",
        "ecffffffffffffffffffffffffffffffffffffffffffffffffffffffffffffffff",
    ];
    let mut sig = vec![0u8; 64];
    sig[0] = 1;
    for (i, p) in points.iter().enumerate() {
        if !ctx.mine(4000 + i as u64) {
            continue;
        }
        let pk = crate::util::unhex(p).unwrap();
        for seq in 1..=24u64 {
            let items = vec![
                Item::S(rlp::uint_bytes(seq)),
                Item::S(b"ed25519".to_vec()),
                Item::S(pk.clone()),
                Item::S(b"id".to_vec()),
                Item::S(b"v4".to_vec()),
            ];
            judge_input(ctx, "ed-small-order-key", &gen::assemble_with_sig(&sig, &items), JudgeOpts { text: false });
        }
    }
}

/// Records carrying BOTH a valid secp256k1 and a valid ed25519 entry, and single-scheme records, decoded in
/// orders that alternate which scheme resolved the previous record.
pub fn combined_scheme_order(ctx: &mut Ctx) {
    if !ctx.mine(6000) {
        return;
    }
    let secp = RefKey::new(Scheme::Secp, crate::keys::secret_from(Scheme::Secp, 0xc01));
    let ed = RefKey::new(Scheme::Ed, crate::keys::secret_from(Scheme::Ed, 0xc02));
    let mk = |signer: &RefKey, with_secp: bool, with_ed: bool, seq: u64| {
        let mut rec = Rec::minimal(*signer, seq);
        rec.map.remove(&b"secp256k1"[..]);
        rec.map.remove(&b"ed25519"[..]);
        if with_secp {
            rec.map.insert(b"secp256k1".to_vec(), Item::S(secp.pub_bytes()));
        }
        if with_ed {
            rec.map.insert(b"ed25519".to_vec(), Item::S(ed.pub_bytes()));
        }
        rec.bytes()
    };
    let ed_only = mk(&ed, false, true, 1);
    let secp_only = mk(&secp, true, false, 2);
    let both_secp = mk(&secp, true, true, 3);
    let both_ed = mk(&ed, true, true, 4);
    for round in 0..3 {
        for (cls, m) in [("order/ed-only", &ed_only), ("order/both-signed-secp", &both_secp), ("order/both-signed-ed", &both_ed), ("order/ed-only", &ed_only),
                         ("order/both-signed-ed", &both_ed), ("order/secp-only", &secp_only), ("order/both-signed-secp", &both_secp), ("order/ed-only", &ed_only),
                         ("order/both-signed-secp", &both_secp)] {
            let _ = round;
            judge_input(ctx, cls, m, JudgeOpts { text: false });
        }
    }
}

/// all 256 tag bytes x (valid x / invalid x) as the 33-byte secp256k1 entry, re-signed
pub fn tag_sweep(ctx: &mut Ctx) {
    let key = RefKey::new(Scheme::Secp, crate::keys::secret_from(Scheme::Secp, 0x7a9));
    let good = key.pub_bytes();
    for tag in 0..=255u64 {
        if !ctx.mine(tag) {
            continue;
        }
        for (xn, x) in [("valid-x", good[1..].to_vec()), ("x-5", {
            let mut v = vec![0u8; 32];
            v[31] = 5;
            v
        })] {
            let mut b = vec![tag as u8];
            b.extend_from_slice(&x);
            let mut rec = Rec::minimal(key, 9);
            rec.map.insert(b"secp256k1".to_vec(), Item::S(b));
            let cls = format!("tag-sweep/{xn}/{}", match tag { 2 | 3 => "compressed", 4 => "tag04", 5 => "tag05", 0 => "tag00", 6 | 7 => "hybrid", _ => "other" });
            judge_input(ctx, &cls, &rec.bytes(), JudgeOpts { text: false });
        }
    }
}

pub fn c01(ctx: &mut Ctx) {
    let q = ctx.quick();
    if !cfg!(miri) {
        history_interference(ctx);
        direct_key_api(ctx);
        concurrency_probe(ctx, true, false);
        lib_made_records(ctx);
    }
    wdec(ctx, DecPlan {
        fixed_bases: if q { 48 } else { 96 },
        seeded_bases: if q { 48 } else { 1900 },
        byte_level: if q { ByteLevel::Sampled(4) } else { ByteLevel::Complete },
        structural: true,
        tampers: true,
        size_sweep_every: 8,
        unstructured: if q { 4000 } else { 100_000 },
        text: true,
        both_keys: true,
        tag_sweep: false,
    });
}

pub fn c02(ctx: &mut Ctx) {
    let q = ctx.quick();
    if !cfg!(miri) {
        history_interference(ctx);
        concurrency_probe(ctx, true, false);
        lib_made_records(ctx);
        volume_stress(ctx);
    }
    wdec(ctx, DecPlan {
        fixed_bases: if q { 96 } else { 200 },
        seeded_bases: if q { 160 } else { 6000 },
        byte_level: ByteLevel::Off,
        structural: true,
        tampers: true,
        size_sweep_every: 2,
        unstructured: if q { 4000 } else { 200_000 },
        text: false,
        both_keys: true,
        tag_sweep: true,
    });
    // random well-framed RLP trees shaped like records, re-signed
    let n = ctx.vol(if q { 3000 } else { 120_000 });
    let keys = [gen::key_pool(Scheme::Secp, 11), gen::key_pool(Scheme::Ed, 11), gen::key_pool(Scheme::Toy, 11)];
    for i in 0..n {
        if !ctx.mine(i) {
            continue;
        }
        if ctx.expired() {
            break;
        }
        let mut r = rng_for(ctx.seed, &["c02-trees"], i);
        let pool = &keys[(i % 3) as usize];
        let key = pool[below(&mut r, pool.len() as u64) as usize];
        // start from a valid record's items and splice random trees in
        let rec = gen::random_valid(&mut r, &[key]);
        let mut items = rec.items();
        let nmut = 1 + below(&mut r, 3);
        for _ in 0..nmut {
            let pos = below(&mut r, items.len() as u64 + 1) as usize;
            let tree = gen::random_tree(&mut r, 2);
            match below(&mut r, 3) {
                0 if pos < items.len() => items[pos] = tree,
                1 => items.insert(pos, tree),
                _ => {
                    // insert a (key, value) pair at a pair boundary
                    let p = 1 + 2 * below(&mut r, ((items.len() - 1) / 2 + 1) as u64) as usize;
                    let k = gen::custom_key(&mut r);
                    items.insert(p.min(items.len()), tree);
                    items.insert(p.min(items.len()), Item::S(k));
                }
            }
        }
        let m = gen::assemble(&key, &items, &items);
        if m.len() <= 330 {
            judge_input(ctx, "resigned-random-tree", &m, JudgeOpts { text: false });
        }
    }
}

pub fn c10_decode_part(ctx: &mut Ctx) {
    if !cfg!(miri) {
        negated_key_pairs(ctx);
        both_keys(ctx);
        ed_small_order(ctx);
        direct_key_api(ctx);
    }
    // records for every key of the pools (edge scalars, leading-zero x), every key type
    let mut n = 0u64;
    for scheme in [Scheme::Secp, Scheme::Ed, Scheme::Toy] {
        for seedk in [7u64, ctx.seed] {
            for key in gen::key_pool(scheme, seedk) {
                n += 1;
                if !ctx.mine(n) {
                    continue;
                }
                let mut r = rng_for(ctx.seed, &["c10-keys"], n);
                for _ in 0..4 {
                    let rec = gen::random_valid(&mut r, &[key]);
                    judge_input(ctx, "valid-key-pool", &rec.bytes(), JudgeOpts { text: false });
                }
            }
        }
    }
    // random keys
    let total = ctx.vol(if ctx.quick() { 600 } else { 30_000 });
    for i in 0..total {
        if !ctx.mine(i) {
            continue;
        }
        if ctx.expired() {
            break;
        }
        let scheme = scheme_for_base(i);
        let key = RefKey::new(scheme, crate::keys::secret_from(scheme, ctx.seed.wrapping_mul(1_000_003).wrapping_add(i)));
        let mut r = rng_for(ctx.seed, &["c10-rand"], i);
        let rec = gen::random_valid(&mut r, &[key]);
        let bytes = rec.bytes();
        ctx.sample(|| json!({"class": "valid-random-key", "scheme": scheme.name(), "hex": crate::util::hex(&bytes)}));
        judge_input(ctx, "valid-random-key", &bytes, JudgeOpts { text: false });
    }
}

pub fn c11_decode_part(ctx: &mut Ctx) {
    let q = ctx.quick();
    if !cfg!(miri) {
        key_api_stress(ctx, if q { 5.0 } else { 40.0 });
        direct_key_api(ctx);
        concurrency_probe(ctx, true, false);
    }
    wdec(ctx, DecPlan {
        fixed_bases: if q { 60 } else { 120 },
        seeded_bases: if q { 60 } else { 2500 },
        byte_level: if q { ByteLevel::Sampled(8) } else { ByteLevel::Sampled(2) },
        structural: true,
        tampers: true,
        size_sweep_every: 4,
        unstructured: if q { 3000 } else { 100_000 },
        text: false,
        both_keys: true,
        tag_sweep: true,
    });
}

pub fn unused_kts() -> Vec<KT> {
    dec::kts()
}

pub fn rlp_wrap_list(items: &[Vec<u8>]) -> Vec<u8> {
    let mut p = Vec::new();
    for i in items {
        p.extend_from_slice(i);
    }
    rlp::enc_list_payload(&p)
}


/// Records of a key k and of its negation n-k (same x coordinate, other parity) decoded alternately, and
/// records that carry -P but are signed by P: what a cache keyed on the x coordinate alone confuses.
pub fn negated_key_pairs(ctx: &mut Ctx) {
    use crate::refimpl::u256;
    for i in 0..6u64 {
        if !ctx.mine(3000 + i) {
            continue;
        }
        let s = crate::keys::secret_from(Scheme::Secp, 0x9e9 + i);
        let neg = u256::sub(&u256::N, &s);
        let k = RefKey::new(Scheme::Secp, s);
        let nk = RefKey::new(Scheme::Secp, neg);
        let mut r = rng_for(ctx.seed, &["negated"], i);
        for round in 0..3 {
            let a = gen::random_valid(&mut r, &[k]);
            let b = gen::random_valid(&mut r, &[nk]);
            judge_input(ctx, "valid-negated-pair", &a.bytes(), JudgeOpts { text: false });
            judge_input(ctx, "valid-negated-pair", &b.bytes(), JudgeOpts { text: false });
            // a record carrying -P signed by P, right after P's record
            judge_input(ctx, "valid-negated-pair", &a.bytes(), JudgeOpts { text: false });
            let mut forged = a.clone();
            forged.map.insert(b"secp256k1".to_vec(), Item::S(nk.pub_bytes()));
            forged.seq += round;
            judge_input(ctx, "pubkey-negated", &gen::assemble(&k, &forged.items(), &forged.items()), JudgeOpts { text: false });
            judge_input(ctx, "valid-negated-pair", &a.bytes(), JudgeOpts { text: false });
        }
    }
}


/// C02 across calls: between the steps of update histories (which sign, verify and fail in many ways on
/// this thread) a fixed set of well-formed and ill-formed records is decoded again; each must get the
/// verdict RefDecode gives it alone, whatever the thread did before.
pub fn history_interference(ctx: &mut Ctx) {
    use crate::hist::{apply_build, apply_op};
    use crate::keys::*;
    use crate::model::{BEntry, Signer, Val};
    use crate::plans::*;
    let probes: Vec<(&'static str, Vec<u8>)> = {
        let k = RefKey::new(Scheme::Secp, secret_from(Scheme::Secp, 0x1f7));
        let e = RefKey::new(Scheme::Ed, secret_from(Scheme::Ed, 0x1f8));
        let mut v = vec![("probe-valid", crate::util::unhex(crate::model::EXAMPLE_RECORD_HEX).unwrap())];
        for key in [k, e] {
            let mut rec = Rec::minimal(key, 77);
            rec.map.insert(b"udp".to_vec(), Item::S(vec![0x76, 0x5f]));
            let good = rec.bytes();
            let mut forged = rec.clone();
            forged.map.insert(b"udp".to_vec(), Item::S(vec![0x76, 0x60]));
            let sg = key.sign(&gen::content_of(&rec.items()));
            v.push(("probe-valid", good));
            v.push(("probe-forged-copy", gen::assemble_with_sig(&sg, &forged.items())));
        }
        v
    };
    let total = ctx.vol(if ctx.quick() { 160 } else { 8000 });
    let ks = kinds();
    for i in 0..total {
        if !ctx.mine(i) {
            continue;
        }
        if ctx.expired() {
            return;
        }
        let mut r = rng_for(ctx.seed, &["interference"], i);
        let (kt, scheme) = ks[(i / ctx.nshards) as usize % ks.len()];
        let h = random_history(&mut r, scheme, 12);
        macro_rules! go {
            ($kk:ty) => {{
                let own = <$kk as KeyKind>::make(scheme, &secret_from(scheme, h.own));
                let other = <$kk as KeyKind>::make(scheme, &secret_from(scheme, h.other));
                if let Ok(Ok(mut e)) = crate::util::guard(|| apply_build::<<$kk as KeyKind>::K>(&[BEntry::Udp4(5), BEntry::Add(b"x".to_vec(), Val::U8(1))], &own)) {
                    for st in &h.steps {
                        let (s, n) = if st.signer == Signer::Own { (&own, &other) } else { (&other, &own) };
                        let _ = crate::util::guard(|| apply_op(&mut e, &st.op, s, n));
                        for (cls, p) in &probes {
                            judge_input(ctx, cls, p, JudgeOpts { text: false });
                        }
                        ctx.count("interference-steps");
                    }
                }
            }};
        }
        match kt {
            KT::K256 => go!(K256K),
            #[cfg(feature = "libsecp")]
            KT::Libsecp => go!(LibsecpK),
            #[cfg(not(feature = "libsecp"))]
            KT::Libsecp => {}
            KT::Ed => go!(EdK),
            KT::Comb => go!(CombK),
            KT::Toy => go!(ToyK),
        }
    }
}


/// The key traits called DIRECTLY (not through a record): `EnrKeyUnambiguous::decode_public`,
/// `EnrPublicKey::{verify_v4, encode, encode_uncompressed, enr_key}`, `EnrKey::{sign_v4, public}` against
/// RefPub / RefSig, for every built-in back-end.
pub fn direct_key_api(ctx: &mut Ctx) {
    use crate::keys::*;
    use crate::refimpl::sig::{self, PubValidity};
    use enr::{EnrKey, EnrKeyUnambiguous, EnrPublicKey};
    fn go<KK: KeyKind>(ctx: &mut Ctx, scheme: Scheme, label: u64, content: &[u8])
    where
        KK::K: EnrKeyUnambiguous,
    {
        let secret = secret_from(scheme, label);
        let rk = RefKey::new(scheme, secret);
        let pubb = rk.pub_bytes();
        let key = KK::make(scheme, &secret);
        let ktn = KK::name();
        let replay = || json!({"kind": "note", "what": "direct-key-api", "kt": KK::name(), "label": label, "content": crate::util::hex(content)});
        ctx.count("evaluations");
        ctx.count("direct-key-api");
        let r = crate::util::guard(|| {
            let mut bad: Vec<String> = Vec::new();
            // public(): the independent derivation
            let pk = key.public();
            if pk.encode().as_ref() != pubb.as_slice() {
                bad.push("public().encode() differs from the independent derivation".into());
            }
            if pk.enr_key() != scheme.enr_key() {
                bad.push("enr_key() is not the scheme's key name".into());
            }
            let want_unc: Vec<u8> = match scheme {
                Scheme::Secp => sig::secp_normalise(&pubb).map(|(_, u)| u.to_vec()).unwrap_or_default(),
                _ => pubb.clone(),
            };
            if pk.encode_uncompressed().as_ref() != want_unc.as_slice() {
                bad.push("encode_uncompressed() is not x||y / the key".into());
            }
            // decode_public of the same bytes gives a key that verifies RefSig's signature and nothing else
            match <KK::K as EnrKeyUnambiguous>::decode_public(&pubb) {
                Ok(dpk) => {
                    let sg = rk.sign(content);
                    if !dpk.verify_v4(content, &sg) {
                        bad.push("verify_v4 rejects an independently made valid signature".into());
                    }
                    let mut other = content.to_vec();
                    other.push(0);
                    if dpk.verify_v4(&other, &sg) {
                        bad.push("verify_v4 accepts a signature over other content".into());
                    }
                    if scheme == Scheme::Secp {
                        let mut s64 = [0u8; 64];
                        s64.copy_from_slice(&sg);
                        if dpk.verify_v4(content, &sig::secp_high_s_twin(&s64)) {
                            bad.push("verify_v4 accepts the high-S twin".into());
                        }
                    }
                    for alt in [sg[1..].to_vec(), [sg.clone(), vec![0]].concat(), vec![], vec![0u8; sg.len()]] {
                        if dpk.verify_v4(content, &alt) {
                            bad.push(format!("verify_v4 accepts a {}-byte malformed signature", alt.len()));
                        }
                    }
                    if dpk.encode().as_ref() != pubb.as_slice() {
                        bad.push("decode_public(b).encode() != b".into());
                    }
                }
                Err(e) => bad.push(format!("decode_public rejects a valid key: {e:?}")),
            }
            // the library's own signature verifies under the independent verifier (64 bytes, low-S for secp)
            match key.sign_v4(content) {
                Ok(sg) => {
                    if !sig::verify(scheme, &pubb, content, &sg) {
                        bad.push(format!("sign_v4 output does not verify independently ({} bytes)", sg.len()));
                    }
                }
                Err(_) => bad.push("sign_v4 failed".into()),
            }
            // invalid encodings
            for alt in [vec![], pubb[..pubb.len() - 1].to_vec(), [pubb.clone(), vec![1]].concat(), vec![0u8; pubb.len()], {
                let mut t = pubb.clone();
                t[0] = 5;
                t
            }] {
                let valid = matches!(sig::pub_validity(scheme, &alt), PubValidity::Valid(_));
                let open = matches!(sig::pub_validity(scheme, &alt), PubValidity::Unspec);
                let got = <KK::K as EnrKeyUnambiguous>::decode_public(&alt).is_ok();
                if !open && got != valid {
                    bad.push(format!("decode_public({}) accepted={got}, RefPub valid={valid}", crate::util::hex(&alt)));
                }
            }
            bad
        });
        match r {
            Err(p) => ctx.violate("C03", "panic", &format!("direct-key-api/{}", crate::util::panic_sig(&p)), || p.clone(), replay),
            Ok(bad) => {
                for b in bad {
                    let cls: String = b.chars().filter(|c| c.is_ascii_alphabetic() || *c == ' ' || *c == '_').take(50).collect::<String>().trim().replace(' ', "-");
                    let prop = if b.contains("verify_v4") || b.contains("sign_v4") { "C01" } else if b.contains("decode_public") { "C11" } else { "C10" };
                    ctx.violate(prop, "key-trait-method-misbehaves", &format!("{cls}/{ktn}"), || format!("{ktn}: {b}"), replay);
                    if prop != "C11" {
                        ctx.violate("C11", "key-trait-method-misbehaves", &format!("{cls}/{ktn}"), || format!("{ktn}: {b}"), replay);
                    }
                }
            }
        }
    }
    let n = ctx.vol(if ctx.quick() { 96 } else { 6000 });
    for i in 0..n {
        if !ctx.mine(i) {
            continue;
        }
        if ctx.expired() {
            return;
        }
        let mut r = rng_for(ctx.seed, &["direct-key-api"], i);
        let len = [0usize, 1, 31, 32, 33, 64, 135, 136, 137, 300][(i % 10) as usize];
        let content = crate::util::rand_bytes(&mut r, len);
        let label = if i % 7 == 0 { (i % 3) | (1 << 63) } else { 5000 + i % 11 };
        go::<K256K>(ctx, Scheme::Secp, label, &content);
        #[cfg(feature = "libsecp")]
        go::<LibsecpK>(ctx, Scheme::Secp, label, &content);
        if cfg!(feature = "ed") {
            go::<EdK>(ctx, Scheme::Ed, label & !(1 << 63), &content);
        }
        #[cfg(feature = "ed")]
        {
            combined_direct(ctx, Scheme::Secp, label, &content);
            combined_direct(ctx, Scheme::Ed, label & !(1 << 63), &content);
        }
    }
}

/// CombinedKey / CombinedPublicKey called DIRECTLY and through their `From` conversions: keys made with
/// `CombinedKey::from(signing key)` and with the enum constructor behave alike, `public()`, `sign_v4`, `encode` and
/// the public key's `encode`, `encode_uncompressed`, `enr_key`, `verify_v4` agree with the independent derivation.
#[cfg(feature = "ed")]
pub fn combined_direct(ctx: &mut Ctx, scheme: Scheme, label: u64, content: &[u8]) {
    use crate::keys::*;
    use crate::refimpl::sig;
    use enr::{CombinedKey, CombinedPublicKey, EnrKey, EnrPublicKey};
    let secret = secret_from(scheme, label);
    let rk = RefKey::new(scheme, secret);
    let pubb = rk.pub_bytes();
    let replay = || json!({"kind": "note", "what": "combined-direct", "scheme": scheme.name(), "label": label, "content": crate::util::hex(content)});
    ctx.count("evaluations");
    ctx.count("combined-direct");
    let r = crate::util::guard(|| {
        let mut bad: Vec<String> = Vec::new();
        let keys: Vec<(&str, CombinedKey)> = match scheme {
            Scheme::Secp => {
                let sk = k256::ecdsa::SigningKey::from_slice(&secret).expect("valid");
                let mut b = secret;
                vec![("from", CombinedKey::from(sk.clone())), ("variant", CombinedKey::Secp256k1(sk)), ("import", CombinedKey::secp256k1_from_bytes(&mut b).expect("valid"))]
            }
            _ => {
                let sk = ed25519_dalek::SigningKey::from_bytes(&secret);
                let mut b = secret;
                vec![("from", CombinedKey::from(sk.clone())), ("variant", CombinedKey::Ed25519(sk)), ("import", CombinedKey::ed25519_from_bytes(&mut b).expect("valid"))]
            }
        };
        let sg_ref = rk.sign(content);
        for (how, key) in &keys {
            let pk: CombinedPublicKey = key.public();
            if pk.encode() != pubb {
                bad.push(format!("{how}: public().encode() differs from the independent derivation"));
            }
            if pk.enr_key() != scheme.enr_key() {
                bad.push(format!("{how}: enr_key() is not the scheme's key name"));
            }
            let want_unc: Vec<u8> = match scheme {
                Scheme::Secp => sig::secp_normalise(&pubb).map(|(_, u)| u.to_vec()).unwrap_or_default(),
                _ => pubb.clone(),
            };
            if pk.encode_uncompressed() != want_unc {
                bad.push(format!("{how}: encode_uncompressed() is not x||y / the key"));
            }
            if key.encode() != secret {
                bad.push(format!("{how}: encode() is not the secret"));
            }
            match key.sign_v4(content) {
                Ok(sg) => {
                    if !sig::verify(scheme, &pubb, content, &sg) {
                        bad.push(format!("{how}: sign_v4 output does not verify independently ({} bytes)", sg.len()));
                    }
                }
                Err(_) => bad.push(format!("{how}: sign_v4 failed")),
            }
            if !pk.verify_v4(content, &sg_ref) {
                bad.push(format!("{how}: verify_v4 rejects an independently made valid signature"));
            }
            let mut other = content.to_vec();
            other.push(0);
            if pk.verify_v4(&other, &sg_ref) || pk.verify_v4(content, &sg_ref[1..]) || pk.verify_v4(content, &[]) {
                bad.push(format!("{how}: verify_v4 accepts a signature it must refuse"));
            }
        }
        // the public key converted from the back-end's verifying key
        let cpk: CombinedPublicKey = match scheme {
            Scheme::Secp => CombinedPublicKey::from(*k256::ecdsa::SigningKey::from_slice(&secret).expect("valid").verifying_key()),
            _ => CombinedPublicKey::from(ed25519_dalek::SigningKey::from_bytes(&secret).verifying_key()),
        };
        if cpk.encode() != pubb || !cpk.verify_v4(content, &sg_ref) || cpk.enr_key() != scheme.enr_key() {
            bad.push("CombinedPublicKey::from(verifying key) differs from the key".into());
        }
        // a key of the OTHER scheme never verifies this signature
        let other_scheme = if scheme == Scheme::Secp { Scheme::Ed } else { Scheme::Secp };
        let ok = CombK::make(other_scheme, &secret_from(other_scheme, label & 0xffff)).public();
        if ok.verify_v4(content, &sg_ref) {
            bad.push("a key of the other scheme verifies the signature".into());
        }
        // Builder::default() is Enr::builder()
        let (a, b) = (enr::Builder::<CombinedKey>::default().udp4(9).build(&keys[0].1), enr::Enr::<CombinedKey>::builder().udp4(9).build(&keys[1].1));
        match (a, b) {
            (Ok(a), Ok(b)) => {
                // (k256 signatures are randomised: the encodings may differ in the signature, nothing else may)
                let pairs = |e: &enr::Enr<CombinedKey>| e.iter().map(|(k, v)| (k.to_vec(), v.to_vec())).collect::<Vec<_>>();
                if pairs(&a) != pairs(&b) || a.seq() != b.seq() || !a.verify() || !b.verify() || a.node_id() != b.node_id() {
                    bad.push("Builder::default() and Enr::builder() build different records".into());
                }
            }
            _ => bad.push("a default builder failed".into()),
        }
        bad
    });
    match r {
        Err(p) => ctx.violate("C03", "panic", &format!("combined-direct/{}", crate::util::panic_sig(&p)), || p.clone(), replay),
        Ok(bad) => {
            for b in bad {
                let cls: String = b.chars().filter(|c| c.is_ascii_alphabetic() || *c == ' ' || *c == '_').take(50).collect::<String>().trim().replace(' ', "-");
                for prop in ["C11", "C01", "C10", "C17"] {
                    let relevant = match prop {
                        "C01" => b.contains("verify_v4") || b.contains("sign_v4") || b.contains("other scheme"),
                        "C10" => b.contains("uncompressed") || b.contains("public()"),
                        "C17" => b.contains("encode() is not the secret") || b.contains("import"),
                        _ => true,
                    };
                    if relevant {
                        ctx.violate(prop, "key-trait-method-misbehaves", &format!("{cls}/combined"), || format!("combined: {b}"), replay);
                    }
                }
            }
        }
    }
}

/// Stress: eight threads, each with ITS OWN key, hammer the key API (`public()`, every 16th round also `sign_v4` +
/// independent verification, every 64th a build and an update) for a bounded time. A thread must only ever see
/// its own key. (Process-wide state behind the key API — a "last key" cache — tears only under real parallelism,
/// so this runs in two shards only, which then own eight cores' worth of threads.)
pub fn key_api_stress(ctx: &mut Ctx, secs_per_kind: f64) {
    use crate::hist::{apply_build, apply_op};
    use crate::keys::*;
    use crate::model::{BEntry, Op};
    use crate::refimpl::sig;
    use enr::{EnrKey, EnrPublicKey};
    use std::sync::atomic::{AtomicBool, AtomicU64, Ordering};
    if cfg!(miri) || ctx.shard >= 2 {
        return;
    }
    const T: usize = 8;
    fn go<KK: KeyKind>(ctx: &mut Ctx, scheme: Scheme, secs: f64)
    where
        KK::K: Send + Sync,
    {
        let stop = AtomicBool::new(false);
        let rounds = AtomicU64::new(0);
        let deadline = std::time::Instant::now() + std::time::Duration::from_secs_f64(secs);
        let seed = ctx.seed;
        let shard = ctx.shard;
        let found: Vec<Option<String>> = std::thread::scope(|sc| {
            let hs: Vec<_> = (0..T)
                .map(|t| {
                    let (stop, rounds) = (&stop, &rounds);
                    sc.spawn(move || -> Option<String> {
                        let label = 0x57_0000 + seed * 1000 + shard * 100 + t as u64;
                        let secret = secret_from(scheme, label);
                        let rk = RefKey::new(scheme, secret);
                        let want = rk.pub_bytes();
                        let key = KK::make(scheme, &secret);
                        let mut i = 0u64;
                        while !stop.load(Ordering::Relaxed) {
                            i += 1;
                            if i % 256 == 0 && std::time::Instant::now() > deadline {
                                break;
                            }
                            let r = crate::util::guard(|| {
                                let pk = key.public();
                                if pk.encode().as_ref() != want.as_slice() {
                                    return Some(format!("public() of thread {t}'s key returned {} instead of {} (round {i})", crate::util::hex(pk.encode().as_ref()), crate::util::hex(&want)));
                                }
                                if i % 16 == 0 {
                                    let msg = i.to_le_bytes();
                                    match key.sign_v4(&msg) {
                                        Ok(sg) if sig::verify(scheme, &want, &msg, &sg) => {}
                                        Ok(_) => return Some(format!("sign_v4 of thread {t}'s key does not verify under its public key (round {i})")),
                                        Err(_) => return Some(format!("sign_v4 of thread {t}'s key failed (round {i})")),
                                    }
                                }
                                if i % 64 == 0 {
                                    match apply_build::<KK::K>(&[BEntry::Udp4(t as u16 + 1)], &key) {
                                        Ok(mut e) => {
                                            let upd = apply_op(&mut e, &Op::SetTcp4(9), &key, &key);
                                            let nid = sig::node_id(scheme, &want);
                                            if upd.is_err() || !e.verify() || Some(e.node_id().raw()) != nid || e.public_key().encode().as_ref() != want.as_slice() {
                                                return Some(format!("a record built and updated with thread {t}'s key: update ok={}, verify={}, node id ok={} (round {i})", upd.is_ok(), e.verify(), Some(e.node_id().raw()) == nid));
                                            }
                                        }
                                        Err(er) => return Some(format!("build with thread {t}'s key failed: {er:?} (round {i})")),
                                    }
                                }
                                None
                            });
                            match r {
                                Ok(None) => {}
                                Ok(Some(msg)) => {
                                    stop.store(true, Ordering::Relaxed);
                                    rounds.fetch_add(i, Ordering::Relaxed);
                                    return Some(msg);
                                }
                                Err(p) => {
                                    stop.store(true, Ordering::Relaxed);
                                    rounds.fetch_add(i, Ordering::Relaxed);
                                    return Some(format!("panic: {p}"));
                                }
                            }
                        }
                        rounds.fetch_add(i, Ordering::Relaxed);
                        None
                    })
                })
                .collect();
            hs.into_iter().map(|h| h.join().unwrap_or(None)).collect()
        });
        ctx.add("evaluations", rounds.load(Ordering::Relaxed));
        ctx.add("key-api-stress-rounds", rounds.load(Ordering::Relaxed));
        ctx.count(&format!("key-api-stress.{}", KK::name()));
        for msg in found.into_iter().flatten() {
            for prop in ["C11", "C05", "C10", "C01"] {
                ctx.violate(prop, "key-api-differs-between-threads", &KK::name(), || format!("{}: {T} threads with distinct keys: {msg}", KK::name()), || json!({"kind": "note", "what": "key-api-stress", "kt": KK::name(), "threads": T}));
            }
        }
    }
    go::<K256K>(ctx, Scheme::Secp, secs_per_kind);
    #[cfg(feature = "libsecp")]
    go::<LibsecpK>(ctx, Scheme::Secp, secs_per_kind);
    if cfg!(feature = "ed") {
        go::<EdK>(ctx, Scheme::Ed, secs_per_kind);
        go::<CombK>(ctx, Scheme::Secp, secs_per_kind);
        go::<CombK>(ctx, Scheme::Ed, secs_per_kind);
    }
}

/// Volume on ONE thread: 2^16 + 500 consecutive rejected inputs and as many accepted ones through every entry point
/// and key type (a counter of 16 bits anywhere behind them overflows; a debug build then panics, a release build
/// wraps), after which a valid record must still be accepted and an invalid one refused with an error value.
pub fn volume_stress(ctx: &mut Ctx) {
    if cfg!(miri) || (ctx.scale >= 1.0 && !ctx.mine(9)) {
        // (release shards: one of them; partial layers — dev, A, D, sanitizers — every shard they run)
        return;
    }
    const N: usize = 65_536 + 500;
    let toy = RefKey::new(Scheme::Toy, crate::keys::secret_from(Scheme::Toy, 0x701));
    let mut ok_rec = Rec::minimal(toy, 9);
    ok_rec.map.insert(b"udp".to_vec(), Item::S(vec![0x76, 0x5f]));
    let good = ok_rec.bytes();
    let good_text = format!("enr:{}", crate::refimpl::b64::encode(&good));
    let mut bad = good.clone();
    let n = bad.len();
    bad[n - 1] ^= 1;
    let good_doc = serde_json::to_string(&good_text).unwrap();
    let bad_text = format!("enr:{}", crate::refimpl::b64::encode(&bad));
    let bad_doc = serde_json::to_string(&bad_text).unwrap();
    for kt in dec::kts() {
        let accepts_good = matches!(crate::refimpl::decode::ref_decode(&good, kt), crate::refimpl::decode::RefOut::Accept(_));
        // rejected volume (three cheap shapes), accepted volume, then both once more in full
        let runs: [(&str, &[u8], &str, &str, bool); 3] = [
            ("rejected-forged", &bad, &bad_text, &bad_doc, false),
            ("rejected-tiny", &[0xc0], "enr:!", "\"enr:-\"", false),
            ("accepted", &good, &good_text, &good_doc, accepts_good),
        ];
        for (what, buf, text, doc, want) in runs {
            ctx.add("evaluations", 3 * N as u64);
            ctx.add("volume-stress-calls", 3 * N as u64);
            let replay = || json!({"kind": "note", "what": "volume-stress", "kt": kt.name(), "run": what, "calls": N});
            let complain = |ctx: &mut Ctx, i: usize, msg: String, is_panic: bool| {
                if is_panic {
                    ctx.violate("C03", "panic", &format!("volume/{what}/{}", crate::util::panic_sig(&msg)), || format!("{}: call number {i} of a run of {N} {what} inputs on one thread: {msg}", kt.name()), replay);
                }
                for prop in ["C02", "C13", "C12"] {
                    ctx.violate(prop, "verdict-depends-on-what-was-decoded-before", &format!("volume/{what}/{}", kt.name()), || format!("{}: call number {i} of a run of {N} {what} inputs on one thread: {msg}", kt.name()), replay);
                }
            };
            match dec::bulk_kt(kt, N, buf, text, doc) {
                Err((i, p)) => complain(ctx, i, p, true),
                Ok(acc) => {
                    let expect = if want { N } else { 0 };
                    if acc != [expect; 3] {
                        complain(ctx, 0, format!("accepted (decode, parse, json) = {acc:?} of {N}, expected {expect} each"), false);
                    }
                }
            }
        }
        // and afterwards the full monitors once
        judge_input(ctx, "valid", &good, JudgeOpts { text: true });
        judge_input(ctx, "bit-flip", &bad, JudgeOpts { text: true });
    }
}

/// The same calls made from several threads at once. The library documents no shared state, so every thread
/// must see exactly what a single thread sees: each concurrent decode outcome goes through the full input
/// monitors again (RefDecode, authenticity, round trip, node id) and is compared with the sequential outcome
/// of the same (bytes, key type); each concurrent update script must leave, step by step, the records the
/// sequential run of the same script left (sequence number, pairs, node id, verify, result kind).
pub fn concurrency_probe(ctx: &mut Ctx, decodes: bool, scripts: bool) {
    concurrency_probe_opts(ctx, decodes, scripts, false)
}

/// `texts`: the threads also PARSE (FromStr and JSON): the canonical text of each valid input, the same text with
/// bytes appended after the record, with padding, and without the prefix.
pub fn concurrency_probe_opts(ctx: &mut Ctx, decodes: bool, scripts: bool, texts: bool) {
    use crate::hist::{apply_build, apply_op};
    use crate::keys::*;
    use crate::model::{BEntry, Signer, Val};
    use crate::plans::*;
    if cfg!(miri) {
        return;
    }
    const T: usize = 4;
    type Summary = (bool, Option<(Vec<u8>, [u8; 32], u64, String)>, String, usize, bool);
    fn summarise(o: &dec::DecOut) -> Summary {
        (o.res.is_ok(), o.res.as_ref().ok().map(|x| (x.enc.clone(), x.node_id, x.seq, x.text.clone())), o.res.as_ref().err().cloned().unwrap_or_default(), o.remaining, o.panic.is_some())
    }
    fn script(kt: KT, scheme: Scheme, h: &crate::hist::History) -> Vec<String> {
        macro_rules! go {
            ($kk:ty) => {{
                let own = <$kk as KeyKind>::make(scheme, &secret_from(scheme, h.own));
                let other = <$kk as KeyKind>::make(scheme, &secret_from(scheme, h.other));
                let mut out = Vec::new();
                match crate::util::guard(|| apply_build::<<$kk as KeyKind>::K>(&[BEntry::Udp4(5), BEntry::Add(b"x".to_vec(), Val::U8(1))], &own)) {
                    Ok(Ok(mut e)) => {
                        for st in &h.steps {
                            let (s, n) = if st.signer == Signer::Other { (&other, &own) } else { (&own, &other) };
                            let r = crate::util::guard(|| apply_op(&mut e, &st.op, s, n).map(|_| ()).map_err(|e| format!("{e:?}")));
                            let c = crate::util::guard(|| (crate::obs::observe_core(&e), e.verify()));
                            out.push(match (r, c) {
                                (Ok(r), Ok((c, v))) => format!("{r:?} seq={} id={} pairs={} verify={v}", c.0, crate::util::hex(&c.1), c.3.iter().map(|(k, v)| format!("{}:{}", crate::util::hex(k), crate::util::hex(v))).collect::<Vec<_>>().join(",")),
                                (r, c) => format!("panic: {:?} / {:?}", r.err(), c.err()),
                            });
                        }
                    }
                    other => out.push(format!("build: {:?}", other.map(|r| r.map(|_| ())))),
                }
                out
            }};
        }
        match kt {
            KT::K256 => go!(K256K),
            #[cfg(feature = "libsecp")]
            KT::Libsecp => go!(LibsecpK),
            #[cfg(not(feature = "libsecp"))]
            KT::Libsecp => Vec::new(),
            KT::Ed => go!(EdK),
            KT::Comb => go!(CombK),
            KT::Toy => go!(ToyK),
        }
    }
    let rounds = ctx.vol(if ctx.quick() { 160 } else { 6400 });
    let ks = kinds();
    let kts = dec::kts();
    for round in 0..rounds {
        if !ctx.mine(round) {
            continue;
        }
        if ctx.expired() {
            return;
        }
        let mut r = rng_for(ctx.seed, &["concurrency"], round);
        // ---- the work list
        let mut inputs: Vec<(&'static str, Vec<u8>)> = Vec::new();
        if decodes {
            for scheme in [Scheme::Secp, Scheme::Ed, Scheme::Toy] {
                let key = RefKey::new(scheme, crate::keys::secret_from(scheme, 0x3000 + round));
                let rec = gen::random_valid(&mut r, &[key]);
                let good = rec.bytes();
                let mut forged = good.clone();
                let n = forged.len();
                forged[n - 1] ^= 1;
                inputs.push(("valid", good));
                inputs.push(("bit-flip", forged));
                let ms = gen::structural_mutants(&rec, &mut r);
                for _ in 0..4 {
                    let (c, m) = &ms[below(&mut r, ms.len() as u64) as usize];
                    inputs.push((c, m.clone()));
                }
            }
        }
        let pairs: Vec<(usize, KT)> = (0..inputs.len()).flat_map(|i| kts.iter().map(move |k| (i, *k))).collect();
        // texts: (class, string, must-be-accepted-by-a-reader-of-the-scheme / must be rejected / as the bytes)
        let mut tx: Vec<(&'static str, String, KT, Option<bool>)> = Vec::new();
        if texts {
            for (cls, b) in inputs.iter().filter(|(c, _)| *c == "valid") {
                let _ = cls;
                let t = format!("enr:{}", crate::refimpl::b64::encode(b));
                let mut longer = b.clone();
                longer.extend_from_slice(&[0x80, 0x01, 0x02]);
                for kt in &kts {
                    let reads = matches!(crate::refimpl::decode::ref_decode(b, *kt), crate::refimpl::decode::RefOut::Accept(_));
                    tx.push(("canonical", t.clone(), *kt, Some(reads)));
                    tx.push(("no-prefix", t[4..].to_string(), *kt, Some(reads)));
                    tx.push(("trailing-bytes", format!("enr:{}", crate::refimpl::b64::encode(&longer)), *kt, Some(false)));
                    tx.push(("padded", format!("{t}="), *kt, Some(false)));
                    tx.push(("json", serde_json::to_string(&t).unwrap(), *kt, Some(reads)));
                    tx.push(("json-trailing-bytes", serde_json::to_string(&format!("enr:{}", crate::refimpl::b64::encode(&longer))).unwrap(), *kt, Some(false)));
                }
            }
        }
        let parse_one = |cls: &str, t: &str, kt: KT| -> (bool, Option<Vec<u8>>, bool) {
            let o = if cls.starts_with("json") { dec::json_kt(kt, t) } else { dec::parse_kt(kt, t) };
            (o.res.is_ok(), o.res.as_ref().ok().map(|x| x.enc.clone()), o.panic.is_some())
        };
        let seq_tx: Vec<(bool, Option<Vec<u8>>, bool)> = tx.iter().map(|(c, t, kt, _)| parse_one(c, t, *kt)).collect();
        let hs: Vec<(KT, Scheme, crate::hist::History)> = if scripts { ks.iter().map(|(kt, s)| (*kt, *s, random_history(&mut r, *s, 8))).filter(|(_, _, h)| h.steps.iter().all(|s| s.signer != Signer::Alt)).collect() } else { Vec::new() };
        // ---- sequential reference
        ctx.trace_case(|| json!({"kind": "concurrency-round", "round": round, "inputs": inputs.iter().map(|(_, b)| crate::util::hex(b)).collect::<Vec<_>>()}));
        let seq_dec: Vec<Summary> = pairs.iter().map(|(i, kt)| summarise(&dec::decode_kt(*kt, &inputs[*i].1))).collect();
        let seq_scr: Vec<Vec<String>> = hs.iter().map(|(kt, s, h)| script(*kt, *s, h)).collect();
        // ---- the same work on T threads at once, each in another order
        #[allow(clippy::type_complexity)]
        let results: Vec<(Vec<(usize, dec::DecOut)>, Vec<(usize, Vec<String>)>, Vec<(usize, (bool, Option<Vec<u8>>, bool))>)> = std::thread::scope(|sc| {
            let handles: Vec<_> = (0..T)
                .map(|t| {
                    let (pairs, inputs, hs, tx, parse_one) = (&pairs, &inputs, &hs, &tx, &parse_one);
                    sc.spawn(move || {
                        let mut txo = Vec::new();
                        let mut torder: Vec<usize> = (0..tx.len()).collect();
                        if !torder.is_empty() {
                            torder.rotate_left(t * tx.len() / T);
                        }
                        // several passes over the texts: a contended entry point shows only while another thread is in it
                        for pass in 0..3 {
                            for &ti in &torder {
                                let r = parse_one(tx[ti].0, &tx[ti].1, tx[ti].2);
                                if pass == 0 || r.0 != (tx[ti].3 == Some(true)) {
                                    txo.push((ti, r));
                                }
                            }
                        }
                        let mut order: Vec<usize> = (0..pairs.len()).collect();
                        if !order.is_empty() {
                            let by = t * pairs.len() / T;
                            order.rotate_left(by);
                        }
                        if t % 2 == 1 {
                            order.reverse();
                        }
                        let mut horder: Vec<usize> = (0..hs.len()).collect();
                        if !horder.is_empty() {
                            horder.rotate_left(t % hs.len());
                        }
                        let mut d = Vec::new();
                        let mut s = Vec::new();
                        let mut hi = horder.into_iter();
                        for (n, p) in order.into_iter().enumerate() {
                            let (i, kt) = pairs[p];
                            d.push((p, dec::decode_kt(kt, &inputs[i].1)));
                            // updates interleaved with the decodes
                            if n % 8 == 3 {
                                if let Some(h) = hi.next() {
                                    s.push((h, script(hs[h].0, hs[h].1, &hs[h].2)));
                                }
                            }
                        }
                        for h in hi {
                            s.push((h, script(hs[h].0, hs[h].1, &hs[h].2)));
                        }
                        (d, s, txo)
                    })
                })
                .collect();
            handles.into_iter().map(|h| h.join().unwrap_or_default()).collect()
        });
        ctx.trace_end();
        // ---- judge
        for (t, (_, _, txo)) in results.iter().enumerate() {
            for (ti, got) in txo {
                let (cls, text, kt, want) = (&tx[*ti].0, &tx[*ti].1, tx[*ti].2, tx[*ti].3);
                ctx.count("evaluations");
                ctx.count("concurrent-parses");
                let replay = || json!({"kind": "text", "entry": if cls.starts_with("json") { "json" } else { "parse" }, "kt": kt.name(), "text": text, "note": "concurrent threads"});
                if got.2 {
                    ctx.violate("C03", "panic", "concurrent-parse", || format!("{}: parsing a {cls} text panicked on thread {t}", kt.name()), replay);
                }
                if let Some(w) = want {
                    if got.0 != w {
                        ctx.violate("C12", if w { "canonical-text-rejected" } else { "non-canonical-text-accepted" }, &format!("concurrent/{cls}/{}", kt.name()), || {
                            format!("{}: a {cls} text was {} on thread {t} of {T} concurrent ones", kt.name(), if got.0 { "accepted" } else { "rejected" })
                        }, replay);
                    }
                }
                if *got != seq_tx[*ti] {
                    ctx.violate("C12", "outcome-differs-between-threads", &format!("{cls}/{}", kt.name()), || {
                        format!("{}: parsing the same {cls} text gave accepted={} on thread {t} of {T} concurrent ones and accepted={} sequentially", kt.name(), got.0, seq_tx[*ti].0)
                    }, replay);
                }
            }
        }
        for (t, (d, s, _)) in results.iter().enumerate() {
            for (p, out) in d {
                let (i, kt) = pairs[*p];
                let (class, bytes) = (&inputs[i].0, &inputs[i].1);
                ctx.count("evaluations");
                ctx.count("concurrent-decodes");
                crate::decmon::judge_outcome(ctx, class, kt, bytes, out);
                if summarise(out) != seq_dec[*p] {
                    for prop in ["C02", "C13", "C01", "C11"] {
                        ctx.violate(prop, "outcome-differs-between-threads", &format!("{class}/{}", kt.name()), || {
                            format!("{}: decoding the same bytes gave another outcome on thread {t} of {T} concurrent ones than sequentially: {:?} vs {:?}", kt.name(), summarise(out).2, seq_dec[*p].2)
                        }, || json!({"kind": "input", "class": class, "entry": "decode", "kt": kt.name(), "hex": crate::util::hex(bytes), "note": "concurrent threads"}));
                    }
                }
            }
            for (h, trace) in s {
                ctx.count("evaluations");
                ctx.count("concurrent-scripts");
                ctx.add("concurrent-steps", trace.len() as u64);
                if *trace != seq_scr[*h] {
                    let at = trace.iter().zip(seq_scr[*h].iter()).position(|(a, b)| a != b).unwrap_or(0);
                    let panicked = trace.iter().any(|l| l.starts_with("panic"));
                    for prop in ["C05", "C06", "C08", "C07", "C03"] {
                        if prop == "C03" && !panicked {
                            continue;
                        }
                        ctx.violate(prop, "update-outcome-differs-between-threads", &format!("{}/step-{at}", hs[*h].0.name()), || {
                            format!("{}: the same update script left another record on thread {t} of {T} concurrent ones than sequentially, first at step {at}: {:?} vs {:?}", hs[*h].0.name(), trace.get(at), seq_scr[*h].get(at))
                        }, || json!({"kind": "history", "kt": hs[*h].0.name(), "history": serde_json::to_value(&hs[*h].2).unwrap(), "note": "concurrent threads"}));
                    }
                }
            }
        }
        // the sequential run of each script is the monitored one
        for (kt, _, h) in &hs {
            run_hist_kt(ctx, *kt, false, h, &crate::hist::RunOpts::default());
        }
    }
}
