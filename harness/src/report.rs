//! Per-worker report: counters, vacuity gates, violations (deduplicated by signature), samples,
//! distinct-case hashes. Serialised as JSON for the supervisor (`/verif/check`).

use serde_json::{json, Value};
use std::collections::{BTreeMap, HashSet};
use std::io::Write;
use std::time::{Duration, Instant};

pub struct Violation {
    pub prop: String,
    pub rule: String,
    /// dedup / known-finding signature: "<prop>|<rule>|<op>|<cause>|<class>"
    pub sig: String,
    pub detail: String,
    pub replay: Value,
}

pub struct Ctx {
    pub prop: String,
    pub tier: String,
    pub seed: u64,
    pub shard: u64,
    pub nshards: u64,
    pub cfg: &'static str,
    pub layer: String,
    pub counters: BTreeMap<String, u64>,
    pub violations: Vec<Violation>,
    pub viol_counts: BTreeMap<String, u64>,
    pub samples: Vec<Value>,
    pub sample_cap: usize,
    pub distinct: HashSet<u64>,
    pub start: Instant,
    pub deadline: Instant,
    pub trace: Option<std::fs::File>,
    pub tracebuf: Option<std::fs::File>,
    pub notes: Vec<String>,
    /// scale factor for volume (sanitizer layers run a fraction)
    pub scale: f64,
    /// when set, only the case with this index string runs (replay of trace lines)
    pub only_case: Option<String>,
    pub case_no: u64,
    pub budget_s: f64,
    /// sampled boundary events for the offline Python re-judgement (pyref)
    /// a record every key type that reads its scheme accepts: re-decoded after other inputs were judged, to see
    /// state an earlier call may have left behind on the thread
    pub canary: Option<Vec<u8>>,
    pub canary_tick: u64,
    /// every record the library hands out in a history is also fed back to the decoder monitors (C01/C02/C11)
    pub judge_lib_made: bool,
    pub pytrace: Vec<Value>,
    pub pytrace_caps: BTreeMap<String, u32>,
}

impl Ctx {
    pub fn new(prop: &str, tier: &str, seed: u64, shard: u64, nshards: u64, budget_s: f64) -> Self {
        let now = Instant::now();
        Self {
            prop: prop.to_string(),
            tier: tier.to_string(),
            seed,
            shard,
            nshards,
            cfg: if cfg!(feature = "libsecp") {
                "B"
            } else if cfg!(feature = "ed") {
                "A"
            } else {
                "D"
            },
            layer: "release".into(),
            counters: BTreeMap::new(),
            violations: Vec::new(),
            viol_counts: BTreeMap::new(),
            samples: Vec::new(),
            sample_cap: 4,
            distinct: HashSet::new(),
            start: now,
            deadline: now + Duration::from_secs_f64(budget_s),
            trace: None,
            tracebuf: None,
            notes: Vec::new(),
            scale: 1.0,
            only_case: None,
            case_no: 0,
            budget_s,
            canary: None,
            canary_tick: 0,
            judge_lib_made: false,
            pytrace: Vec::new(),
            pytrace_caps: BTreeMap::new(),
        }
    }
    /// Under Miri the budget is split into phases so that every part of a workload gets a share.
    pub fn phase(&mut self, end_fraction: f64) {
        if cfg!(miri) {
            self.deadline = self.start + Duration::from_secs_f64(self.budget_s * end_fraction);
        }
    }
    pub fn quick(&self) -> bool {
        self.tier == "quick"
    }
    pub fn expired(&self) -> bool {
        Instant::now() >= self.deadline
    }
    /// scaled count
    pub fn vol(&self, n: u64) -> u64 {
        ((n as f64 * self.scale).ceil() as u64).max(1)
    }
    /// does this shard own case number `i`?
    pub fn mine(&self, i: u64) -> bool {
        i % self.nshards == self.shard
    }
    /// like `mine`, for a handful of one-off cases: layers that run only a fraction of the shards (dev, A, D,
    /// valgrind, ASan: scale < 1) run all of them in every shard, so that a failure that needs that layer
    /// (overflow checks of a debug build, another back-end) cannot hide in a shard the layer never runs.
    pub fn mine_few(&self, i: u64) -> bool {
        self.mine(i) || self.scale < 1.0
    }
    pub fn count(&mut self, name: &str) {
        *self.counters.entry(name.to_string()).or_insert(0) += 1;
    }
    pub fn add(&mut self, name: &str, n: u64) {
        *self.counters.entry(name.to_string()).or_insert(0) += n;
    }
    pub fn get(&self, name: &str) -> u64 {
        self.counters.get(name).copied().unwrap_or(0)
    }
    pub fn distinct(&mut self, h: u64) {
        self.distinct.insert(h);
    }
    pub fn sample(&mut self, f: impl FnOnce() -> Value) {
        if self.samples.len() < self.sample_cap {
            self.samples.push(f());
        }
    }
    /// write the case description before running it (only in trace mode: used by the supervisor to
    /// attribute an abort / hang, which escape catch_unwind, to the case that was open)
    pub fn trace_case(&mut self, f: impl FnOnce() -> Value) {
        self.case_no += 1;
        if let Some(t) = self.trace.as_mut() {
            let v = f();
            let _ = writeln!(t, "{}", v);
            let _ = t.flush();
        }
    }
    /// the case returned: a death after this line did not happen inside a monitored case
    pub fn trace_end(&mut self) {
        if let Some(t) = self.trace.as_mut() {
            let _ = writeln!(t, "END");
            let _ = t.flush();
        }
    }
    pub fn violate(
        &mut self,
        prop: &str,
        rule: &str,
        class: &str,
        detail: impl FnOnce() -> String,
        replay: impl FnOnce() -> Value,
    ) {
        let sig = format!("{prop}|{rule}|{class}");
        let c = self.viol_counts.entry(sig.clone()).or_insert(0);
        *c += 1;
        if *c == 1 && self.violations.len() < 400 {
            self.violations.push(Violation {
                prop: prop.to_string(),
                rule: rule.to_string(),
                sig,
                detail: detail(),
                replay: replay(),
            });
        }
    }
    pub fn to_json(&self) -> Value {
        json!({
            "prop": self.prop, "tier": self.tier, "seed": self.seed, "shard": self.shard,
            "nshards": self.nshards, "cfg": self.cfg, "layer": self.layer,
            "counters": self.counters,
            "viol_counts": self.viol_counts,
            "violations": self.violations.iter().map(|v| json!({
                "prop": v.prop, "rule": v.rule, "sig": v.sig, "detail": v.detail, "replay": v.replay,
            })).collect::<Vec<_>>(),
            "samples": self.samples,
            "distinct": self.distinct.len(),
            "oracle_disagreements": crate::refimpl::sig::disagreements(),
            "notes": self.notes,
            "wall_s": self.start.elapsed().as_secs_f64(),
            "expired": self.expired(),
        })
    }
    /// keep at most `cap` events per bucket
    pub fn pytrace(&mut self, bucket: &str, cap: u32, f: impl FnOnce() -> Value) {
        let c = self.pytrace_caps.entry(bucket.to_string()).or_insert(0);
        if *c < cap && self.pytrace.len() < 400 {
            *c += 1;
            self.pytrace.push(f());
        }
    }
    pub fn write_pytrace(&self, path: &str) -> std::io::Result<()> {
        let mut f = std::io::BufWriter::new(std::fs::File::create(path)?);
        for v in &self.pytrace {
            writeln!(f, "{}", v)?;
        }
        Ok(())
    }
    pub fn write_distinct(&self, path: &str) -> std::io::Result<()> {
        let mut v: Vec<u64> = self.distinct.iter().copied().collect();
        v.sort_unstable();
        let mut f = std::io::BufWriter::new(std::fs::File::create(path)?);
        for h in v {
            f.write_all(&h.to_le_bytes())?;
        }
        Ok(())
    }
}
