//! C03 (top level), C12 (text), C13 (stream), C14 (ports), C15 (equality), C16 (NodeId), C17 (keys).

use crate::props::concurrency_probe;
use crate::dec::{self, DecOut};
use crate::decmon::{judge_input, JudgeOpts};
use crate::gen::{self, Rec};
use crate::hist::{apply_build, check_typed, RunOpts};
use crate::keys::*;
use crate::model::*;
use crate::obs::{fixed_hash, typed, Obs, Typed};
use crate::plans::*;
use crate::props::{scheme_for_base, wdec, ByteLevel, DecPlan};
use crate::props_hist::*;
use crate::refimpl::decode::{ref_decode, RefOut, KT};
use crate::refimpl::rlp::{self, Item};
use crate::refimpl::sig::{self, RefKey, Scheme};
use crate::refimpl::{b64, u256};
use crate::report::Ctx;
use crate::util::{below, guard, h64, hex, panic_sig, rand_bytes, rng_for};
use alloy_rlp::Decodable;
use enr::{Enr, EnrKey, EnrPublicKey, NodeId};
use rand::RngCore;
use serde_json::json;

// =============================================================================================
// C03
// =============================================================================================
pub fn c03(ctx: &mut Ctx) {
    let q = ctx.quick();
    crate::props::volume_stress(ctx);
    ctx.phase(0.35);
    wdec(ctx, DecPlan {
        fixed_bases: if q { 32 } else { 96 },
        seeded_bases: if q { 40 } else { 1500 },
        byte_level: if q { ByteLevel::Sampled(4) } else { ByteLevel::Complete },
        structural: true,
        tampers: true,
        size_sweep_every: 8,
        unstructured: if q { 20_000 } else { 600_000 },
        text: true,
        both_keys: true,
        tag_sweep: true,
    });
    // unstructured strings through parse / JSON, for Enr and NodeId
    if std::env::var("ENRMON_DEBUG").is_ok() { eprintln!("c03: wdec done {:?}", ctx.start.elapsed()); }
    ctx.phase(0.5);
    let n = if cfg!(miri) { 1_000_000 } else { ctx.vol(if q { 20_000 } else { 500_000 }) };
    for i in 0..n {
        if !ctx.mine(i) {
            continue;
        }
        if ctx.expired() {
            break;
        }
        let mut r = rng_for(ctx.seed, &["c03-strings"], i);
        let s = gen::random_string(&mut r);
        ctx.trace_case(|| json!({"kind": "text", "text": s}));
        for kt in dec::kts() {
            for (entry, o) in [("parse", dec::parse_kt(kt, &s)), ("json", dec::json_kt(kt, &format!("{:?}", s)))] {
                ctx.count("evaluations");
                ctx.count("c03.string-calls");
                if let Some(p) = &o.panic {
                    ctx.count("panics");
                    ctx.violate("C03", "panic", &format!("{entry}/{}", panic_sig(p)), || format!("{entry}::<{}> panicked on {s:?}: {p}", kt.name()), || {
                        json!({"kind": "text", "entry": entry, "kt": kt.name(), "text": s})
                    });
                }
            }
        }
        ctx.distinct(h64(&[s.as_bytes()]));
        // JSON that is not a string at all, and NodeId deserialisation
        let docs = [s.clone(), format!("{:?}", s), format!("\"0x{}\"", s), "null".into(), "[1,2]".into(), "{\"a\":1}".into(), "12".into()];
        for d in &docs {
            let r1 = guard(|| serde_json::from_str::<NodeId>(d).is_ok());
            let r2 = guard(|| serde_json::from_str::<Enr<k256::ecdsa::SigningKey>>(d).is_ok());
            ctx.add("evaluations", 2);
            for (what, r) in [("NodeId-json", r1), ("Enr-json", r2)] {
                if let Err(p) = r {
                    ctx.count("panics");
                    ctx.violate("C03", "panic", &format!("{what}/{}", panic_sig(&p)), || format!("{what} panicked on {d:?}: {p}"), || json!({"kind": "json", "what": what, "doc": d}));
                }
            }
        }
        ctx.trace_end();
        let nb = below(&mut r, 70) as usize;
        let raw = rand_bytes(&mut r, nb);
        if let Err(p) = guard(|| NodeId::parse(&raw).map(|n| (format!("{n}"), format!("{n:?}")))) {
            ctx.violate("C03", "panic", &format!("NodeId::parse/{}", panic_sig(&p)), || format!("NodeId::parse panicked: {p}"), || json!({"kind": "nodeid-parse", "hex": hex(&raw)}));
        }
    }
    if std::env::var("ENRMON_DEBUG").is_ok() { eprintln!("c03: strings done {:?}", ctx.start.elapsed()); }
    ctx.phase(0.97);
    c03_hist_part(ctx);
    if std::env::var("ENRMON_DEBUG").is_ok() { eprintln!("c03: hist done {:?}", ctx.start.elapsed()); }
    ctx.phase(1.0);
    // key import with arbitrary bytes
    #[cfg(feature = "ed")]
    c03_key_import(ctx, q);
}

#[cfg(feature = "ed")]
fn c03_key_import(ctx: &mut Ctx, q: bool) {
    let n = if cfg!(miri) { 0 } else { ctx.vol(if q { 3000 } else { 100_000 }) };
    for i in 0..n {
        if !ctx.mine(i) {
            continue;
        }
        let mut r = rng_for(ctx.seed, &["c03-keys"], i);
        let len = [0usize, 1, 31, 32, 32, 32, 33, 64][below(&mut r, 8) as usize];
        let b = rand_bytes(&mut r, len);
        for which in ["secp", "ed"] {
            let mut bb = b.clone();
            let res = guard(|| {
                if which == "secp" {
                    enr::CombinedKey::secp256k1_from_bytes(&mut bb).map(|k| k.encode())
                } else {
                    enr::CombinedKey::ed25519_from_bytes(&mut bb).map(|k| k.encode())
                }
            });
            ctx.count("evaluations");
            if let Err(p) = res {
                ctx.violate("C03", "panic", &format!("{which}_from_bytes/{}", panic_sig(&p)), || format!("{which}_from_bytes panicked: {p}"), || json!({"kind": "key-import", "which": which, "hex": hex(&b)}));
            }
        }
    }
}

// =============================================================================================
// C12 — text and JSON forms
// =============================================================================================
fn text_expect_accept(s: &str, kt: KT) -> Option<bool> {
    // Some(true): must parse; Some(false): must be rejected; None: not judged (open region)
    let body = s.strip_prefix("enr:").unwrap_or(s);
    match b64::decode_strict(body) {
        None => Some(false),
        Some(bytes) => match ref_decode(&bytes, kt) {
            RefOut::Accept(_) => Some(true),
            RefOut::Reject(_) => Some(false),
            RefOut::NotOneItem(_) => Some(false), // bytes after the record
            RefOut::Unspec(_) => None,
        },
    }
}

fn judge_text_one(ctx: &mut Ctx, kind: &str, s: &str, via_json: bool) {
    judge_text_inner(ctx, kind, s, via_json);
    ctx.trace_end();
}

fn judge_text_inner(ctx: &mut Ctx, kind: &str, s: &str, via_json: bool) {
    ctx.trace_case(|| json!({"kind": "text", "text": s, "json": via_json}));
    for kt in dec::kts() {
        let want = match text_expect_accept(s, kt) {
            Some(w) => w,
            None => {
                ctx.count("unspecified-region");
                continue;
            }
        };
        let o: DecOut = if via_json { dec::json_kt(kt, &serde_json::to_string(s).unwrap()) } else { dec::parse_kt(kt, s) };
        if via_json && kind.starts_with("canonical") {
            for (form, d) in dec::json_variants_kt(kt, &serde_json::to_string(s).unwrap()) {
                ctx.count("evaluations");
                if d.res.is_ok() != want {
                    ctx.violate("C12", if want { "canonical-text-rejected" } else { "non-canonical-text-accepted" }, &format!("{kind}/{form}/{}", kt.name()), || {
                        format!("{form}::<{}> of {s:?}: {:?}", kt.name(), d.res.as_ref().map(|_| "Ok").map_err(|e| e.clone()))
                    }, || json!({"kind": "text", "entry": "json", "kt": kt.name(), "text": s, "mutation": kind}));
                }
            }
        }
        ctx.count("evaluations");
        ctx.count(&format!("text.{kind}.{}", if o.res.is_ok() { "accept" } else { "reject" }));
        ctx.distinct(h64(&[s.as_bytes(), kt.name().as_bytes(), &[via_json as u8]]));
        let entry = if via_json { "json" } else { "parse" };
        if let Some(p) = &o.panic {
            ctx.violate("C03", "panic", &format!("{entry}/{}", panic_sig(p)), || format!("{entry} panicked: {p}"), || json!({"kind": "text", "entry": entry, "kt": kt.name(), "text": s}));
            // a text that has to be REJECTED (or accepted) got neither verdict
            ctx.violate("C12", "text-neither-accepted-nor-rejected", &format!("{kind}/{entry}/{}", kt.name()), || format!("{entry}::<{}>({s:?}) panicked: {p}", kt.name()), || {
                json!({"kind": "text", "entry": entry, "kt": kt.name(), "text": s, "mutation": kind})
            });
            continue;
        }
        if o.res.is_ok() != want {
            let rule = if want { "canonical-text-rejected" } else { "non-canonical-text-accepted" };
            ctx.violate("C12", rule, &format!("{kind}/{entry}/{}", kt.name()), || format!("{entry}::<{}>({s:?}) = {:?}, expected accept={want}", kt.name(), o.res.as_ref().map(|_| "Ok").map_err(|e| e.clone())), || {
                json!({"kind": "text", "entry": entry, "kt": kt.name(), "text": s, "mutation": kind})
            });
        }
        if let (true, Ok(obs)) = (want, &o.res) {
            // parsing the canonical text returns the record whose encoding it is
            let body = s.strip_prefix("enr:").unwrap_or(s);
            if Some(&obs.enc) != b64::decode_strict(body).as_ref() {
                ctx.violate("C12", "parsed-record-differs-from-text", &format!("{kind}/{entry}/{}", kt.name()), || "".into(), || json!({"kind": "text", "entry": entry, "kt": kt.name(), "text": s}));
            }
            if obs.text != format!("enr:{body}") {
                ctx.violate("C12", "text-form-not-canonical", &format!("{kind}/{entry}/{}", kt.name()), || format!("to_base64 = {}", obs.text), || json!({"kind": "text", "entry": entry, "kt": kt.name(), "text": s}));
            }
        }
    }
}

/// Every text goes through BOTH entry points: `str::parse` and JSON deserialisation.
fn judge_text(ctx: &mut Ctx, kind: &str, s: &str, via_json: bool) {
    judge_text_one(ctx, kind, s, via_json);
    if !via_json {
        judge_text_one(ctx, kind, s, true);
    }
}

/// Different records of ONE signer at ONE sequence number rendered one after the other through every text
/// producer: each gets its own canonical text.
fn c12_same_identity_texts<KK: KeyKind>(ctx: &mut Ctx, scheme: Scheme) {
    let key = KK::make(scheme, &secret_from(scheme, OWN));
    let recs: Vec<Enr<KK::K>> = [
        vec![BEntry::Udp4(1)],
        vec![BEntry::Udp4(2)],
        vec![BEntry::Udp4(1), BEntry::Add(b"x".to_vec(), Val::U8(1))],
        vec![BEntry::Seq(9), BEntry::Tcp4(1)],
        vec![BEntry::Seq(9), BEntry::Tcp4(2)],
    ]
    .iter()
    .filter_map(|p| guard(|| apply_build::<KK::K>(p, &key).ok()).ok().flatten())
    .collect();
    for round in 0..3 {
        for (i, e) in recs.iter().enumerate() {
            let r = guard(|| {
                let want = format!("enr:{}", b64::encode(&alloy_rlp::encode(e)));
                let forms = [
                    ("Display", format!("{e}")),
                    ("to_string", e.to_string()),
                    ("to_base64", e.to_base64()),
                    ("json", serde_json::to_string(e).map(|s| s.trim_matches('"').to_string()).unwrap_or_default()),
                    ("json-value", serde_json::to_value(e).ok().and_then(|v| v.as_str().map(|s| s.to_string())).unwrap_or_default()),
                ];
                forms.into_iter().filter(|(_, t)| *t != want).map(|(n, t)| (n, t)).collect::<Vec<_>>()
            });
            ctx.count("evaluations");
            ctx.count("text.same-identity-renderings");
            let replay = || json!({"kind": "note", "what": "same-identity-texts", "kt": KK::name(), "record": i, "round": round});
            match r {
                Ok(bad) => {
                    for (form, t) in bad {
                        ctx.violate("C12", "text-form-not-canonical", &format!("{form}/same-signer-same-seq/{}", KK::name()), || format!("{form} of record {i} (round {round}) = {t}"), replay);
                    }
                }
                Err(p) => ctx.violate("C03", "panic", &format!("text/{}", panic_sig(&p)), || p.clone(), replay),
            }
        }
    }
}

pub fn c12(ctx: &mut Ctx) {
    let q = ctx.quick();
    crate::props::concurrency_probe_opts(ctx, true, false, true);
    if !cfg!(miri) && ctx.mine(5) {
        c12_same_identity_texts::<K256K>(ctx, Scheme::Secp);
        c12_same_identity_texts::<ToyK>(ctx, Scheme::Toy);
        if cfg!(feature = "ed") {
            c12_same_identity_texts::<EdK>(ctx, Scheme::Ed);
            c12_same_identity_texts::<CombK>(ctx, Scheme::Secp);
        }
    }
    let pools = crate::props::Pools::new();
    let nb = 24 + ctx.vol(if q { 40 } else { 2500 });
    for b in 0..nb {
        if !ctx.mine(b) {
            continue;
        }
        if ctx.expired() {
            ctx.count("deadline-stops");
            break;
        }
        let mut r = if b < 24 { rng_for(0, &["c12-fixed"], b) } else { rng_for(ctx.seed, &["c12"], b) };
        let scheme = scheme_for_base(b);
        let rec = gen::random_valid(&mut r, pools.get(scheme));
        let bytes = rec.bytes();
        let body = b64::encode(&bytes);
        let text = format!("enr:{body}");
        ctx.count("bases");
        ctx.sample(|| json!({"text": text}));
        judge_text(ctx, "canonical", &text, false);
        judge_text(ctx, "canonical-noprefix", &body, false);
        judge_text(ctx, "canonical", &text, true);
        judge_text(ctx, "canonical-noprefix", &body, true);
        for p in ["ENR:", "Enr:", "enr:enr:", "enr;", " enr:", "enr: ", "enr", "enr:\n", "e", "nr:", ":", "enr::"] {
            judge_text(ctx, "other-prefix", &format!("{p}{body}"), false);
        }
        judge_text(ctx, "other-prefix", &format!("ENR:{body}"), true);
        for pad in ["=", "==", "==="] {
            judge_text(ctx, "padding", &format!("{text}{pad}"), false);
            judge_text(ctx, "padding", &format!("{body}{pad}"), false);
        }
        judge_text(ctx, "padding", &format!("{text}="), true);
        for ws in [" ", "\n", "\t", "\r\n", "\u{a0}", "\u{2003}", "\u{feff}", "\u{0}"] {
            judge_text(ctx, "whitespace", &format!("{ws}{text}"), false);
            judge_text(ctx, "whitespace", &format!("{text}{ws}"), false);
            let mid = 4 + body.len() / 2;
            judge_text(ctx, "whitespace", &format!("{}{ws}{}", &text[..mid], &text[mid..]), false);
        }
        // every character replaced (complete per position for the fixed corpus, sampled otherwise)
        let complete = b < 24 || !q;
        let chars: Vec<char> = body.chars().collect();
        for pos in 0..chars.len() {
            if !complete && (pos as u64 + b) % 6 != 0 {
                continue;
            }
            for rep in ['+', '/', ' ', '\t', '\n', '=', 'é', '.', '\0'] {
                let mut c2 = chars.clone();
                c2[pos] = rep;
                let s: String = c2.into_iter().collect();
                judge_text(ctx, "foreign-character", &format!("enr:{s}"), false);
            }
        }
        // multi-byte characters replacing / inserted at each of the first 8 character offsets (the prefix included)
        for ch in ['é', '€', '😀'] {
            for at in 0..8usize {
                let tc: Vec<char> = text.chars().collect();
                let mut rep = tc.clone();
                rep[at] = ch;
                judge_text(ctx, "foreign-character", &rep.iter().collect::<String>(), false);
                let mut ins = tc.clone();
                ins.insert(at, ch);
                judge_text(ctx, "foreign-character", &ins.iter().collect::<String>(), false);
                if at < 4 {
                    let bc: Vec<char> = body.chars().collect();
                    let mut rb = bc.clone();
                    rb[at] = ch;
                    judge_text(ctx, "foreign-character", &rb.iter().collect::<String>(), false);
                }
            }
        }
        if b < 24 {
            // every code point U+0000..U+00FF at the first, a middle and the last body position
            for cp in 0u32..0x100 {
                let ch = char::from_u32(cp).unwrap();
                for pos in [0usize, chars.len() / 2, chars.len() - 1] {
                    let mut c2 = chars.clone();
                    if c2[pos] == ch {
                        continue;
                    }
                    c2[pos] = ch;
                    let sv: String = c2.into_iter().collect();
                    judge_text(ctx, "codepoint-sweep", &format!("enr:{sv}"), false);
                }
            }
        }
        // non-zero trailing bits: all values
        let last = *chars.last().unwrap();
        const ALPHA: &[u8; 64] = b"ABCDEFGHIJKLMNOPQRSTUVWXYZabcdefghijklmnopqrstuvwxyz0123456789-_";
        let lv = ALPHA.iter().position(|&a| a as char == last).unwrap() as u8;
        let free_bits = match body.len() % 4 {
            2 => 4,
            3 => 2,
            _ => 0,
        };
        for extra in 1..(1u8 << free_bits) {
            let mut c2 = chars.clone();
            *c2.last_mut().unwrap() = ALPHA[(lv | extra) as usize] as char;
            let s: String = c2.into_iter().collect();
            judge_text(ctx, "trailing-bits", &format!("enr:{s}"), false);
            judge_text(ctx, "trailing-bits", &s, true);
        }
        // bytes after the record, then base64-encoded
        for n in 1..=(if q { 12 } else { 40 }) {
            for fill in [0x00u8, 0x55, 0xff] {
                let mut v = bytes.clone();
                v.extend(std::iter::repeat(fill).take(n));
                if v.len() <= 300 || n <= 3 {
                    judge_text(ctx, "bytes-after-record", &format!("enr:{}", b64::encode(&v)), false);
                }
            }
        }
        {
            let mut v = bytes.clone();
            v.extend_from_slice(&bytes);
            judge_text(ctx, "bytes-after-record", &format!("enr:{}", b64::encode(&v)), false);
            let mut v = bytes.clone();
            v.push(0xc0);
            judge_text(ctx, "bytes-after-record", &b64::encode(&v), true);
        }
        // bytes BEFORE the record, non-string JSON documents, confusable prefixes, a very long text
        for fill in [0x00u8, 0x80, 0xc0] {
            let mut v = vec![fill];
            v.extend_from_slice(&bytes);
            judge_text(ctx, "bytes-before-record", &format!("enr:{}", b64::encode(&v)), false);
        }
        for p in ["\u{ff45}nr:", "enr\u{ff1a}", "\u{435}nr:", "enr:\u{200b}", "\u{feff}enr:"] {
            judge_text(ctx, "other-prefix", &format!("{p}{body}"), false);
        }
        judge_text(ctx, "bytes-after-record", &format!("enr:{}", b64::encode(&[bytes.clone(), vec![0x41; 1800]].concat())), false);
        for kt in dec::kts() {
            for doc in [format!("[\"{text}\"]"), format!("{{\"enr\":\"{text}\"}}"), "12".to_string(), "null".to_string(), "true".to_string(), format!("\"{text}\" \"x\"")] {
                let o = dec::json_kt(kt, &doc);
                ctx.count("evaluations");
                ctx.count(&format!("text.non-string-json.{}", if o.res.is_ok() { "accept" } else { "reject" }));
                if o.res.is_ok() {
                    ctx.violate("C12", "non-canonical-text-accepted", &format!("non-string-json/{}", kt.name()), || doc.clone(), || json!({"kind": "json", "what": "Enr-json", "doc": doc}));
                }
            }
        }
        // standard-alphabet rendering of the same bytes (differs when '-' or '_' occur)
        let std_alpha: String = body.chars().map(|c| match c { '-' => '+', '_' => '/', c => c }).collect();
        if std_alpha != body {
            judge_text(ctx, "standard-alphabet", &format!("enr:{std_alpha}"), false);
        }
    }
    // library-produced records: the text form is checked on every state of these histories
    let opts = RunOpts::default();
    random_histories(ctx, if q { 200 } else { 10_000 }, 10, 40, &opts, &|_, _| true);
}

// =============================================================================================
// C13 — prefix-local decoding
// =============================================================================================
fn same_outcome(a: &DecOut, b: &DecOut) -> Result<(), &'static str> {
    match (&a.res, &b.res) {
        (Ok(x), Ok(y)) => {
            if x.seq != y.seq || x.pairs != y.pairs || x.sig != y.sig || x.node_id != y.node_id || x.enc != y.enc || x.pubkey != y.pubkey {
                Err("fields-differ")
            } else {
                Ok(())
            }
        }
        // the error value is part of the outcome: which rule a complete item breaks cannot depend on what follows it
        (Err(x), Err(y)) if x != y => Err("error-value-differs"),
        (Err(_), Err(_)) => Ok(()),
        (Ok(_), Err(_)) => Err("alone-accepted-with-suffix-rejected"),
        (Err(_), Ok(_)) => Err("alone-rejected-with-suffix-accepted"),
    }
}

fn decode_seq<K: EnrKey>(buf: &[u8], n: usize) -> Result<Vec<(Vec<u8>, usize)>, String> {
    guard(|| {
        let mut b = buf;
        let mut out = Vec::new();
        for _ in 0..n {
            match Enr::<K>::decode(&mut b) {
                Ok(e) => out.push((alloy_rlp::encode(&e), b.len())),
                Err(e) => return Err(format!("{e:?}")),
            }
        }
        Ok(out)
    })
    .unwrap_or_else(|p| Err(format!("panic: {p}")))
}

fn decode_seq_kt(kt: KT, buf: &[u8], n: usize) -> Result<Vec<(Vec<u8>, usize)>, String> {
    match kt {
        KT::K256 => decode_seq::<k256::ecdsa::SigningKey>(buf, n),
        #[cfg(feature = "libsecp")]
        KT::Libsecp => decode_seq::<secp256k1::SecretKey>(buf, n),
        #[cfg(not(feature = "libsecp"))]
        KT::Libsecp => Err("not in build".into()),
        KT::Ed => decode_seq::<<EdK as KeyKind>::K>(buf, n),
        KT::Comb => decode_seq::<<CombK as KeyKind>::K>(buf, n),
        KT::Toy => decode_seq::<ToyKey>(buf, n),
    }
}

/// Lists of records ENCODED by the library's own `Encodable` (alloy-rlp frames `Vec<T>` from `T::length()`):
/// the bytes are the RefRLP list of the two encodings and decode back to the same records.
fn c13_encoded_lists<KK: KeyKind>(ctx: &mut Ctx, scheme: Scheme) {
    let key = KK::make(scheme, &secret_from(scheme, OWN));
    let plans: Vec<Vec<BEntry>> = vec![
        vec![],
        vec![BEntry::Add(b"v".to_vec(), Val::U8(1))],
        vec![BEntry::Add(vec![0x05], Val::B(vec![1, 2]))],
        vec![BEntry::Add(vec![b'k'; 56], Val::B(vec![3]))],
        vec![BEntry::Add(vec![0x90, 0x91], Val::B(vec![0x55; 57])), BEntry::Udp4(9)],
        vec![BEntry::Ip4([1, 2, 3, 4]), BEntry::Tcp4(80), BEntry::Add(b"a".to_vec(), Val::L(vec![vec![1], vec![]]))],
    ];
    let mut recs: Vec<Enr<KK::K>> = Vec::new();
    for p in &plans {
        if let Ok(Ok(e)) = guard(|| apply_build::<KK::K>(p, &key)) {
            recs.push(e);
        }
    }
    for i in 0..recs.len() {
        for j in 0..recs.len() {
            let pair = vec![recs[i].clone(), recs[j].clone()];
            let r = guard(|| {
                let listed = alloy_rlp::encode(&pair);
                let mut b: &[u8] = &listed;
                let back = Vec::<Enr<KK::K>>::decode(&mut b).map(|v| (v.len(), v.iter().zip(&pair).all(|(x, y)| x == y), b.len()));
                (listed, back.map_err(|e| format!("{e:?}")))
            });
            ctx.count("evaluations");
            ctx.count("stream.encoded-lists");
            let replay = || json!({"kind": "note", "what": "encoded-list", "kt": KK::name(), "plans": [i, j]});
            match r {
                Err(p) => ctx.violate("C03", "panic", &format!("encode-list/{}", panic_sig(&p)), || p.clone(), replay),
                Ok((listed, back)) => {
                    let want = crate::props::rlp_wrap_list(&[alloy_rlp::encode(&pair[0]), alloy_rlp::encode(&pair[1])]);
                    if listed != want {
                        ctx.violate("C13", "list-encoding-of-records-malformed", &KK::name(), || format!("encode(vec![r{i}, r{j}]) differs from the list of the two encodings"), replay);
                    }
                    match back {
                        Ok((2, true, 0)) => {}
                        other => ctx.violate("C13", "list-yields-other-records", &format!("encoded-by-library/{}", KK::name()), || format!("decode(encode(vec![r{i}, r{j}])) = {other:?}"), replay),
                    }
                }
            }
        }
    }
}

pub fn c13(ctx: &mut Ctx) {
    let q = ctx.quick();
    concurrency_probe(ctx, true, false);
    if !cfg!(miri) && ctx.mine(3) {
        c13_encoded_lists::<K256K>(ctx, Scheme::Secp);
        #[cfg(feature = "libsecp")]
        c13_encoded_lists::<LibsecpK>(ctx, Scheme::Secp);
        if cfg!(feature = "ed") {
            c13_encoded_lists::<EdK>(ctx, Scheme::Ed);
            c13_encoded_lists::<CombK>(ctx, Scheme::Ed);
        }
        c13_encoded_lists::<ToyK>(ctx, Scheme::Toy);
    }
    let pools = crate::props::Pools::new();
    let pool = |s: Scheme| pools.get(s);
    let nb = 12 + ctx.vol(if q { 36 } else { 1500 });
    for b in 0..nb {
        if !ctx.mine(b) {
            continue;
        }
        if ctx.expired() {
            ctx.count("deadline-stops");
            break;
        }
        let mut r = if b < 12 { rng_for(0, &["c13-fixed"], b) } else { rng_for(ctx.seed, &["c13"], b) };
        let scheme = scheme_for_base(b);
        let rec = gen::random_valid(&mut r, pool(scheme));
        let other = gen::random_valid(&mut r, pool(scheme));
        let valid = rec.bytes();
        let mut items: Vec<(&'static str, Vec<u8>)> = vec![("valid", valid.clone())];
        // a small record, so that long suffixes still keep the whole buffer interesting
        let minimal = Rec::minimal(rec.key, 1).bytes();
        items.push(("valid-minimal", minimal.clone()));
        // complete items far shorter than any record
        for t in [&[0xc0u8][..], &[0x80], &[0x05], &[0xc1, 0x80], &[0xc2, 0x01, 0x02], &[0xc3, 0x80, 0x01, 0x80], &[0x83, 1, 2, 3], &[0xc4, 0x83, b'a', b'b', b'c']] {
            if !cfg!(miri) {
                items.push(("tiny-item", t.to_vec()));
            }
        }
        // the same bytes under every key type, then again in the reverse order: each type keeps its verdict
        {
            let first: Vec<(KT, bool)> = dec::kts().into_iter().map(|kt| (kt, dec::decode_kt(kt, &valid).res.is_ok())).collect();
            for (kt, was) in first.iter().rev() {
                let second = dec::decode_kt(*kt, &valid);
                // (a record handed out although its key cannot be read shows as a panic in the observation)
                let now = second.res.is_ok() || second.panic.is_some();
                ctx.count("evaluations");
                ctx.count("stream.reverse-pass");
                if let Some(p) = &second.panic {
                    ctx.violate("C03", "panic", &format!("decode/{}", panic_sig(p)), || format!("decode panicked: {p}"), || json!({"kind": "input", "class": "valid", "entry": "decode", "kt": kt.name(), "hex": hex(&valid)}));
                }
                if now != *was {
                    ctx.violate("C13", "verdict-depends-on-what-was-decoded-before", kt.name(), || format!("{}: the same buffer was accepted={was} first and accepted={now} after the other key types had decoded it", kt.name()), || {
                        json!({"kind": "input", "class": "valid", "entry": "decode", "kt": kt.name(), "hex": hex(&valid), "note": "reverse key-type order"})
                    });
                }
            }
        }
        if !cfg!(miri) {
            let muts = gen::structural_mutants(&rec, &mut r);
            for (cls, m) in muts.into_iter().step_by(if q { 9 } else { 3 }) {
                items.push((cls, m));
            }
            for (cls, m) in gen::field_tampers(&rec, &pool(scheme)[0], &other).into_iter().step_by(if q { 7 } else { 2 }) {
                items.push((cls, m));
            }
        } else {
            // cheap invalid items: a flipped signature bit, a truncated-but-reframed record
            let mut v = valid.clone();
            v[10] ^= 1;
            items.push(("bit-flip", v));
        }
        ctx.count("bases");
        for (cls, item) in &items {
            if cfg!(miri) && ctx.expired() {
                break;
            }
            // the quantifier: buffers that begin with a complete RLP item
            match rlp::header(item) {
                Ok(h) if h.total() == item.len() => {}
                _ => continue,
            }
            let mut lens: Vec<usize> = if cfg!(miri) { vec![0, 1, 2, 16, 200, 301] } else { (0..=16).collect() };
            if !cfg!(miri) {
                lens.extend(290..=310);
            }
            let extra = if q { 6 } else { 40 };
            for _ in 0..extra {
                lens.push(17 + below(&mut r, 984) as usize);
            }
            lens.push(1000);
            for kt in dec::kts() {
                let alone = dec::decode_kt(kt, item);
                if alone.panic.is_some() {
                    continue;
                }
                if alone.res.is_err() && kt.reads(scheme) && *item != valid {
                    // a refused item must not change what the NEXT buffer on the thread decodes to (the smallest
                    // record of the key: fewer pairs than the refused item)
                    let again = dec::decode_kt(kt, &minimal);
                    ctx.count("evaluations");
                    ctx.count("stream.valid-after-refused");
                    if again.res.is_err() {
                        ctx.violate("C13", "valid-record-rejected-after-another-input", &format!("after-{cls}/{}", kt.name()), || {
                            format!("{}: the valid record is rejected ({:?}) right after a refused item of class {cls}", kt.name(), again.res.as_ref().err())
                        }, || json!({"kind": "input-pair", "first": hex(item), "second": hex(&minimal), "kt": kt.name(), "class": cls}));
                    }
                }
                for &l in &lens {
                    if cfg!(miri) && ctx.expired() {
                        break;
                    }
                    let fills: Vec<Vec<u8>> = vec![
                        vec![0u8; l],
                        vec![0xffu8; l],
                        rand_bytes(&mut r, l),
                        other.bytes().iter().cycle().take(l).copied().collect(),
                        valid.iter().cycle().take(l).copied().collect(),
                    ];
                    for (fi, suffix) in fills.iter().enumerate() {
                        if q && l > 16 && !(290..=310).contains(&l) && fi % 2 == 1 {
                            continue;
                        }
                        let mut buf = item.clone();
                        buf.extend_from_slice(suffix);
                        ctx.trace_case(|| json!({"kind": "stream", "kt": kt.name(), "item": hex(item), "suffix": hex(suffix)}));
                        let with = dec::decode_kt(kt, &buf);
                        ctx.trace_end();
                        ctx.count("evaluations");
                        ctx.count(&format!("stream.{}.{}", if alone.res.is_ok() { "valid-item" } else { "invalid-item" }, if with.res.is_ok() { "accept" } else { "reject" }));
                        ctx.distinct(h64(&[item, &(l as u64).to_le_bytes(), &[fi as u8], kt.name().as_bytes()]));
                        let replay = || json!({"kind": "stream", "kt": kt.name(), "item": hex(item), "suffix": hex(suffix), "class": cls});
                        if let Some(p) = &with.panic {
                            ctx.violate("C03", "panic", &format!("decode/{}", panic_sig(p)), || format!("decode panicked: {p}"), replay);
                            continue;
                        }
                        let lenclass = if l == 0 { "0" } else if item.len() + l <= 300 { "total-le-300" } else { "total-gt-300" };
                        if let Err(why) = same_outcome(&alone, &with) {
                            ctx.violate("C13", "outcome-depends-on-following-bytes", &format!("{why}/{lenclass}/{}", kt.name()), || {
                                format!("{}: item of {} bytes (class {cls}) + {l} following bytes: {why}", kt.name(), item.len())
                            }, replay);
                        } else if with.res.is_ok() && with.remaining != l {
                            ctx.violate("C13", "buffer-not-advanced-by-item-length", &format!("{lenclass}/{}", kt.name()), || format!("remaining {} expected {l}", with.remaining), replay);
                        }
                    }
                }
            }
        }
        // every record size 100..=300: alone, followed by one byte, and as the first of two in a stream / list
        let kts: Vec<KT> = dec::kts().into_iter().filter(|k| k.reads(scheme)).collect();
        if !cfg!(miri) && (b < 12 || !q) {
            let small = Rec::minimal(rec.key, 1 + below(&mut r, 300));
            let tail = Rec::minimal(rec.key, 9).bytes();
            for size in 100..=300usize {
                let rs = match gen::pad_to(&small, b"pad", size) {
                    Some(x) => x.bytes(),
                    None => continue,
                };
                for &kt in &kts {
                    ctx.count("evaluations");
                    ctx.count("stream.size-sweep");
                    ctx.distinct(h64(&[&(size as u64).to_le_bytes(), kt.name().as_bytes(), b"size-sweep"]));
                    let replay = || json!({"kind": "stream", "kt": kt.name(), "item": hex(&rs), "suffix": hex(&tail), "class": "size-sweep"});
                    let mut buf = rs.clone();
                    buf.extend_from_slice(&tail);
                    match decode_seq_kt(kt, &buf, 2) {
                        Ok(v) => {
                            if v.len() != 2 || v[0].0 != rs || v[0].1 != tail.len() || v[1].0 != tail || v[1].1 != 0 {
                                ctx.violate("C13", "sequence-yields-other-records", &format!("size-sweep/{}", kt.name()), || format!("record of {size} bytes followed by a second record"), replay);
                            }
                        }
                        Err(e) => ctx.violate("C13", "sequence-of-valid-records-rejected", &format!("size-sweep/{}", kt.name()), || format!("record of {size} bytes followed by a second record: {e}"), replay),
                    }
                    let listed = crate::props::rlp_wrap_list(&[rs.clone(), tail.clone()]);
                    let (res, left, _p) = dec::list_kt(kt, &listed);
                    match res {
                        Ok(v) if v.len() == 2 && left == 0 && v[0].enc == rs && v[1].enc == tail => {}
                        other => ctx.violate("C13", "list-yields-other-records", &format!("size-sweep/{}", kt.name()), || format!("list [record of {size} bytes, record]: {:?}", other.map(|v| v.len())), replay),
                    }
                }
            }
        }
        // a record followed by an INVALID sibling (forged copy with the same signature, tampered fields): the
        // second item must get the verdict it gets alone (judged by RefDecode, not by a previous library call)
        if !cfg!(miri) {
            let mut forged: Vec<(&'static str, Vec<u8>)> = gen::field_tampers(&rec, &pool(scheme)[0], &other);
            let sgn = rec.key.sign(&gen::content_of(&rec.items()));
            for (k, v) in [(&b"zz"[..], vec![1u8, 2, 3]), (b"ip", vec![203, 0, 113, 66]), (b"udp", vec![0x99])] {
                let mut r2 = rec.clone();
                r2.map.insert(k.to_vec(), Item::S(v));
                forged.push(("forged-copy-same-signature", gen::assemble_with_sig(&sgn, &r2.items())));
            }
            for (cls, x) in forged {
                for &kt in &kts {
                    let want = match ref_decode(&x, kt) {
                        RefOut::Accept(_) => true,
                        RefOut::Reject(_) => false,
                        _ => continue,
                    };
                    let mut buf = valid.clone();
                    buf.extend_from_slice(&x);
                    ctx.count("evaluations");
                    ctx.count("stream.mixed-sequences");
                    let replay = || json!({"kind": "stream", "kt": kt.name(), "item": hex(&valid), "suffix": hex(&x), "class": cls});
                    let got = decode_seq_kt(kt, &buf, 2);
                    let first_ok = decode_seq_kt(kt, &buf, 1).is_ok();
                    if !first_ok {
                        ctx.violate("C13", "outcome-depends-on-following-bytes", &format!("valid-then-{cls}/{}", kt.name()), || "the valid first record is rejected".into(), replay);
                    } else if got.is_ok() != want {
                        ctx.violate("C13", "sequence-item-verdict-differs-from-alone", &format!("{cls}/{}", kt.name()), || {
                            format!("second item (class {cls}) after a valid record: accepted={} but alone it is accepted={want}", got.is_ok())
                        }, replay);
                    }
                    let listed = crate::props::rlp_wrap_list(&[valid.clone(), x.clone()]);
                    let (res, _left, _p) = dec::list_kt(kt, &listed);
                    if res.is_ok() != want {
                        ctx.violate("C13", "list-item-verdict-differs-from-alone", &format!("{cls}/{}", kt.name()), || format!("list [valid, {cls}] accepted={}", res.is_ok()), replay);
                    }
                }
            }
        }
        // 65-byte (uncompressed) public keys are an open region for C02, but prefix-locality still holds: the
        // verdict an item gets ALONE (taken first, after an unrelated record) is the verdict it must get after
        // a sibling that shares the first 33 key bytes
        if !cfg!(miri) && scheme == Scheme::Secp {
            if let Some((_, u)) = sig::secp_normalise(&rec.key.pub_bytes()) {
                let mut unc = vec![4u8];
                unc.extend_from_slice(&u);
                let mk = |pk: Vec<u8>, seq: u64| {
                    let mut r2 = Rec::minimal(rec.key, seq);
                    r2.map.insert(b"secp256k1".to_vec(), Item::S(pk));
                    r2.bytes()
                };
                let a65 = mk(unc.clone(), 5);
                let mut bad = unc.clone();
                bad[64] ^= 0x55;
                let mut neg = unc.clone();
                let y = crate::refimpl::u256::from_slice(&u[32..]);
                neg[33..].copy_from_slice(&crate::refimpl::u256::sub(&crate::refimpl::u256::P, &y));
                let unrelated = Rec::minimal(pool(scheme)[1], 2).bytes();
                for (cls, x) in [("uncompressed-key-garbage-y", mk(bad, 6)), ("uncompressed-negated-key", mk(neg, 6)), ("uncompressed-key", mk(unc.clone(), 7))] {
                    for &kt in &kts {
                        let _ = dec::decode_kt(kt, &unrelated);
                        let alone = dec::decode_kt(kt, &x).res.is_ok();
                        let _ = dec::decode_kt(kt, &unrelated);
                        let mut buf = a65.clone();
                        buf.extend_from_slice(&x);
                        ctx.count("evaluations");
                        ctx.count("stream.uncompressed-key-sequences");
                        let replay = || json!({"kind": "stream", "kt": kt.name(), "item": hex(&a65), "suffix": hex(&x), "class": cls});
                        if decode_seq_kt(kt, &buf, 1).is_ok() {
                            let got = decode_seq_kt(kt, &buf, 2).is_ok();
                            if got != alone {
                                ctx.violate("C13", "sequence-item-verdict-differs-from-alone", &format!("{cls}/{}", kt.name()), || {
                                    format!("second item (class {cls}): accepted={got} in the stream, accepted={alone} alone")
                                }, replay);
                            }
                            let listed = crate::props::rlp_wrap_list(&[a65.clone(), x.clone()]);
                            let (res, _l, _p) = dec::list_kt(kt, &listed);
                            if res.is_ok() != alone {
                                ctx.violate("C13", "list-item-verdict-differs-from-alone", &format!("{cls}/{}", kt.name()), || format!("list [uncompressed-key record, {cls}] accepted={}", res.is_ok()), replay);
                            }
                        }
                    }
                }
            }
        }
        // a record EMBEDDED in a message: list[ u64, record, bytes, record, u64 ] read field by field with the
        // RLP library's own primitives (what a wire protocol does): each field must be found where it starts
        if !cfg!(miri) {
            let r1 = valid.clone();
            let r2b = gen::random_valid(&mut r, pool(scheme)).bytes();
            let blob_len = below(&mut r, 40) as usize;
            let blob = rand_bytes(&mut r, blob_len);
            let mut payload = rlp::enc_uint(0x1122_3344);
            payload.extend_from_slice(&r1);
            payload.extend_from_slice(&rlp::enc_str(&blob));
            payload.extend_from_slice(&r2b);
            payload.extend_from_slice(&rlp::enc_uint(7));
            let msg = rlp::enc_list_payload(&payload);
            for &kt in &kts {
                fn read<K: EnrKey>(msg: &[u8]) -> Result<(u64, Vec<u8>, Vec<u8>, Vec<u8>, u64, usize), String> {
                    guard(|| {
                        let mut b = msg;
                        let mut p = alloy_rlp::Header::decode_bytes(&mut b, true).map_err(|e| format!("{e:?}"))?;
                        let a = u64::decode(&mut p).map_err(|e| format!("a: {e:?}"))?;
                        let e1 = Enr::<K>::decode(&mut p).map_err(|e| format!("record 1: {e:?}"))?;
                        let blob = bytes::Bytes::decode(&mut p).map_err(|e| format!("blob: {e:?}"))?;
                        let e2 = Enr::<K>::decode(&mut p).map_err(|e| format!("record 2: {e:?}"))?;
                        let z = u64::decode(&mut p).map_err(|e| format!("z: {e:?}"))?;
                        Ok((a, alloy_rlp::encode(&e1), blob.to_vec(), alloy_rlp::encode(&e2), z, p.len() + b.len()))
                    })
                    .unwrap_or_else(|p| Err(format!("panic: {p}")))
                }
                let got = match kt {
                    KT::K256 => read::<k256::ecdsa::SigningKey>(&msg),
                    #[cfg(feature = "libsecp")]
                    KT::Libsecp => read::<secp256k1::SecretKey>(&msg),
                    #[cfg(not(feature = "libsecp"))]
                    KT::Libsecp => continue,
                    KT::Ed => read::<<EdK as KeyKind>::K>(&msg),
                    KT::Comb => read::<<CombK as KeyKind>::K>(&msg),
                    KT::Toy => read::<ToyKey>(&msg),
                };
                ctx.count("evaluations");
                ctx.count("stream.embedded-records");
                let replay = || json!({"kind": "note", "what": "embedded-record", "kt": kt.name(), "message": hex(&msg)});
                match got {
                    Ok((a, e1, bl, e2, z, left)) => {
                        if a != 0x1122_3344 || e1 != r1 || bl != blob || e2 != r2b || z != 7 || left != 0 {
                            ctx.violate("C13", "embedded-record-moves-the-cursor-wrongly", kt.name(), || format!("fields read back differ (left over {left})"), replay);
                        }
                    }
                    Err(e) => ctx.violate("C13", "embedded-record-moves-the-cursor-wrongly", kt.name(), || format!("message of {} bytes: {e}", msg.len()), replay),
                }
            }
        }
        // back-to-back sequences and RLP lists of 1..=8 valid records
        for n in 1..=8usize {
            if cfg!(miri) && ctx.expired() {
                break;
            }
            let recs: Vec<Vec<u8>> = (0..n).map(|_| gen::random_valid(&mut r, pool(scheme)).bytes()).collect();
            let concat: Vec<u8> = recs.concat();
            let listed = crate::props::rlp_wrap_list(&recs);
            for &kt in &kts {
                ctx.count("evaluations");
                ctx.count("stream.sequences");
                let replay = || json!({"kind": "stream-seq", "kt": kt.name(), "records": recs.iter().map(|x| hex(x)).collect::<Vec<_>>()});
                let lenclass = if concat.len() <= 300 { "total-le-300" } else { "total-gt-300" };
                match decode_seq_kt(kt, &concat, n) {
                    Ok(v) => {
                        let mut rem = concat.len();
                        for (i, (enc, left)) in v.iter().enumerate() {
                            rem -= recs[i].len();
                            if *enc != recs[i] || *left != rem {
                                ctx.violate("C13", "sequence-yields-other-records", &format!("{lenclass}/{}", kt.name()), || format!("record {i} of {n}"), replay);
                                break;
                            }
                        }
                    }
                    Err(e) => {
                        ctx.violate("C13", "sequence-of-valid-records-rejected", &format!("{lenclass}/{}", kt.name()), || format!("{n} records back to back: {e}"), replay);
                    }
                }
                let (res, left, panic) = dec::list_kt(kt, &listed);
                ctx.count("evaluations");
                ctx.count("stream.lists");
                let lenclass = if listed.len() <= 300 { "total-le-300" } else { "total-gt-300" };
                if let Some(p) = panic {
                    ctx.violate("C03", "panic", &format!("Vec<Enr>::decode/{}", panic_sig(&p)), || p.clone(), replay);
                    continue;
                }
                match res {
                    Ok(v) => {
                        if v.len() != n || left != 0 || v.iter().zip(&recs).any(|(o, r)| &o.enc != r) {
                            ctx.violate("C13", "list-yields-other-records", &format!("{lenclass}/{}", kt.name()), || format!("{} of {n}", v.len()), replay);
                        }
                    }
                    Err(e) => {
                        ctx.violate("C13", "list-of-valid-records-rejected", &format!("{lenclass}/{}", kt.name()), || format!("list of {n} records ({} bytes): {e}", listed.len()), replay);
                    }
                }
            }
        }
    }
}

// =============================================================================================
// C14 — typed accessors
// =============================================================================================
fn light<K: EnrKey>(e: &Enr<K>) -> Obs {
    Obs {
        seq: e.seq(),
        node_id: [0; 32],
        sig: Vec::new(),
        pairs: e.iter().map(|(k, v)| (k.clone(), v.to_vec())).collect(),
        enc: Vec::new(),
        verify: false,
        pubkey: Vec::new(),
        pubkey_entry: Vec::new(),
        node_id_from_pub: [0; 32],
        size: 0,
        text: String::new(),
        hash: 0,
        typed: typed(e),
        pubkey_uncompressed: Vec::new(),
        into_iter_pairs: Vec::new(),
    }
}

fn ports_kind<KK: KeyKind>(ctx: &mut Ctx, scheme: Scheme, ports: &[u16]) {
    let ktn = KK::name();
    let secret = secret_from(scheme, OWN);
    let key = KK::make(scheme, &secret);
    let rk = RefKey::new(scheme, secret);
    let names: [(&str, &[u8]); 4] = [("tcp4", b"tcp"), ("tcp6", b"tcp6"), ("udp4", b"udp"), ("udp6", b"udp6")];
    let get = |t: &Typed, i: usize| [t.tcp4, t.tcp6, t.udp4, t.udp6][i];
    let mut setter_enr: Vec<Enr<KK::K>> = (0..4).map(|_| apply_build::<KK::K>(&[], &key).expect("minimal build")).collect();
    let mut sock_enr = apply_build::<KK::K>(&[], &key).expect("minimal build");
    let mut fixed_enr = apply_build::<KK::K>(&[BEntry::Ip4([10, 9, 9, 9]), BEntry::Ip6("fd00::1".parse::<std::net::Ipv6Addr>().unwrap().octets())], &key).expect("minimal build");
    let mut prev: [Option<u16>; 4] = [None; 4];
    let mut shared = Enr::<KK::K>::builder();
    for &p in ports {
        if p % 16 == 5 {
            // the same builder, written again and again: the LAST value written is the one built
            let r = guard(|| {
                shared.tcp4(p.wrapping_add(1)).tcp4(p).udp6(p).client_info("a".into(), "1".into(), None).client_info("b".into(), p.to_string(), None);
                shared.build(&key).map(|e| light(&e))
            });
            ctx.count("evaluations");
            ctx.count("ports.reused-builder");
            let replay = || json!({"kind": "port", "kt": KK::KT.name(), "scheme": scheme.name(), "which": "reused-builder", "port": p});
            match r {
                Ok(Ok(o)) => {
                    if o.typed.tcp4 != Some(p) || o.typed.udp6 != Some(p) || o.typed.client != Some(("b".into(), p.to_string(), None)) {
                        ctx.violate("C14", "typed-setter-stores-or-reads-other-value", &format!("reused-builder/{ktn}"), || format!("port {p}: tcp4 {:?} udp6 {:?} client {:?}", o.typed.tcp4, o.typed.udp6, o.typed.client), replay);
                    }
                    check_typed(ctx, &o, &format!("reused-builder/{ktn}"), &replay);
                }
                Ok(Err(e)) => ctx.violate("C14", "typed-builder-refused", &format!("reused/{ktn}"), || format!("port {p}: {e:?}"), replay),
                Err(pm) => ctx.violate("C03", "panic", &format!("builder/{}", panic_sig(&pm)), || pm.clone(), replay),
            }
        }
        if ctx.expired() {
            ctx.count("deadline-stops");
            return;
        }
        let want_raw = rlp::enc_uint(p as u64);
        for (i, (name, rawkey)) in names.iter().enumerate() {
            let replay = || json!({"kind": "port", "kt": KK::KT.name(), "scheme": scheme.name(), "which": name, "port": p});
            // ---- builder
            let entry = match i {
                0 => BEntry::Tcp4(p),
                1 => BEntry::Tcp6(p),
                2 => BEntry::Udp4(p),
                _ => BEntry::Udp6(p),
            };
            match guard(|| apply_build::<KK::K>(&[entry.clone()], &key)) {
                Ok(Ok(e)) => {
                    let o = light(&e);
                    ctx.count("evaluations");
                    ctx.count("ports.builder");
                    if o.get(rawkey) != Some(&want_raw[..]) || get(&o.typed, i) != Some(p) {
                        ctx.violate("C14", "typed-setter-stores-or-reads-other-value", &format!("builder/{name}/{ktn}"), || format!("port {p}: raw {:?} getter {:?}", o.get(rawkey).map(hex), get(&o.typed, i)), replay);
                    }
                    check_typed(ctx, &o, &format!("builder/{ktn}"), &replay);
                }
                Ok(Err(e)) => ctx.violate("C14", "typed-builder-refused", &format!("{name}/{ktn}"), || format!("port {p}: {e:?}"), replay),
                Err(pm) => ctx.violate("C03", "panic", &format!("builder/{}", panic_sig(&pm)), || pm.clone(), replay),
            }
            // ---- typed setter (returns the previous value)
            let e = &mut setter_enr[i];
            let r = guard(|| match i {
                0 => e.set_tcp4(p, &key),
                1 => e.set_tcp6(p, &key),
                2 => e.set_udp4(p, &key),
                _ => e.set_udp6(p, &key),
            });
            match r {
                Ok(Ok(ret)) => {
                    let o = light(e);
                    ctx.count("evaluations");
                    ctx.count("ports.setter");
                    if o.get(rawkey) != Some(&want_raw[..]) || get(&o.typed, i) != Some(p) {
                        ctx.violate("C14", "typed-setter-stores-or-reads-other-value", &format!("setter/{name}/{ktn}"), || format!("port {p}: raw {:?} getter {:?}", o.get(rawkey).map(hex), get(&o.typed, i)), replay);
                    }
                    if ret != prev[i] {
                        ctx.violate("C08", "return-value-differs", &format!("set_{name}"), || format!("returned {ret:?}, previous was {:?}", prev[i]), replay);
                    }
                    prev[i] = Some(p);
                    check_typed(ctx, &o, &format!("setter/{ktn}"), &replay);
                }
                Ok(Err(er)) => ctx.violate("C14", "typed-setter-refused", &format!("{name}/{ktn}"), || format!("port {p}: {er:?}"), replay),
                Err(pm) => ctx.violate("C03", "panic", &format!("setter/{}", panic_sig(&pm)), || pm.clone(), replay),
            }
            // ---- socket setter
            let addr: std::net::SocketAddr = if i % 2 == 0 {
                std::net::SocketAddr::new(std::net::IpAddr::V4([10, (p >> 8) as u8, p as u8, 1].into()), p)
            } else {
                let mut a = [0u8; 16];
                a[0] = 0xfd;
                a[14] = (p >> 8) as u8;
                a[15] = p as u8;
                std::net::SocketAddr::new(std::net::IpAddr::V6(a.into()), p)
            };
            let r = guard(|| if i < 2 { sock_enr.set_tcp_socket(addr, &key) } else { sock_enr.set_udp_socket(addr, &key) });
            match r {
                Ok(Ok(())) => {
                    let o = light(&sock_enr);
                    ctx.count("evaluations");
                    ctx.count("ports.socket-setter");
                    let ipok = match addr.ip() {
                        std::net::IpAddr::V4(a) => o.typed.ip4 == Some(a.octets()) && o.get(b"ip") == Some(&rlp::enc_str(&a.octets())[..]),
                        std::net::IpAddr::V6(a) => o.typed.ip6 == Some(a.octets()) && o.get(b"ip6") == Some(&rlp::enc_str(&a.octets())[..]),
                    };
                    if o.get(rawkey) != Some(&want_raw[..]) || get(&o.typed, i) != Some(p) || !ipok {
                        ctx.violate("C14", "typed-setter-stores-or-reads-other-value", &format!("socket-setter/{name}/{ktn}"), || format!("port {p}"), replay);
                    }
                    check_typed(ctx, &o, &format!("socket-setter/{ktn}"), &replay);
                }
                Ok(Err(er)) => ctx.violate("C14", "typed-setter-refused", &format!("socket/{name}/{ktn}"), || format!("port {p}: {er:?}"), replay),
                Err(pm) => ctx.violate("C03", "panic", &format!("socket-setter/{}", panic_sig(&pm)), || pm.clone(), replay),
            }
            // ---- socket setter again on a record whose address of that family NEVER changes (only the port does)
            {
                let fixed: std::net::SocketAddr = if i % 2 == 0 { std::net::SocketAddr::new(std::net::IpAddr::V4([10, 9, 9, 9].into()), p) } else { std::net::SocketAddr::new("fd00::1".parse().unwrap(), p) };
                let before = light(&fixed_enr);
                let r = guard(|| if i < 2 { fixed_enr.set_tcp_socket(fixed, &key) } else { fixed_enr.set_udp_socket(fixed, &key) });
                if let Ok(Ok(())) = r {
                    let o = light(&fixed_enr);
                    ctx.count("evaluations");
                    ctx.count("ports.socket-setter-fixed-address");
                    // the port key of this family and transport holds p; the three other port keys are untouched
                    let others_same = (0..4).filter(|j| *j != i).all(|j| get(&o.typed, j) == get(&before.typed, j));
                    if o.get(rawkey) != Some(&want_raw[..]) || get(&o.typed, i) != Some(p) || !others_same {
                        ctx.violate("C14", "typed-setter-stores-or-reads-other-value", &format!("socket-setter-fixed-address/{name}/{ktn}"), || format!("port {p}: getter {:?}, other ports untouched {others_same}", get(&o.typed, i)), replay);
                    }
                    check_typed(ctx, &o, &format!("socket-setter-fixed/{ktn}"), &replay);
                } else {
                    ctx.violate("C14", "typed-setter-refused", &format!("socket-fixed/{name}/{ktn}"), || format!("port {p}: {r:?}"), replay);
                }
            }
            // ---- decode of a RefSig-signed record
            let mut rec = Rec::minimal(rk, 1);
            rec.map.insert(rawkey.to_vec(), Item::S(rlp::uint_bytes(p as u64)));
            let bytes = rec.bytes();
            let d = guard(|| {
                let mut b: &[u8] = &bytes;
                Enr::<KK::K>::decode(&mut b).map(|e| light(&e))
            });
            match d {
                Ok(Ok(o)) => {
                    ctx.count("evaluations");
                    ctx.count("ports.decode");
                    if get(&o.typed, i) != Some(p) || o.get(rawkey) != Some(&want_raw[..]) {
                        ctx.violate("C14", "typed-accessor-disagrees-with-raw", &format!("{name}/decode/{ktn}"), || format!("port {p}: getter {:?}", get(&o.typed, i)), replay);
                    }
                    check_typed(ctx, &o, &format!("decode/{ktn}"), &replay);
                }
                Ok(Err(e)) => ctx.violate("C14", "canonical-port-record-rejected", &format!("{name}/{ktn}"), || format!("port {p}: {e:?}"), replay),
                Err(pm) => ctx.violate("C03", "panic", &format!("decode/{}", panic_sig(&pm)), || pm.clone(), replay),
            }
        }
        ctx.distinct(h64(&[&p.to_le_bytes(), ktn.as_bytes()]));
    }
}

pub fn c14(ctx: &mut Ctx) {
    let q = ctx.quick();
    // all 65 536 ports, interleaved over the shards
    let ports: Vec<u16> = (0..=65_535u32).filter(|p| ctx.mine(*p as u64)).map(|p| p as u16).collect();
    ports_kind::<ToyK>(ctx, Scheme::Toy, &ports);
    ports_kind::<K256K>(ctx, Scheme::Secp, &ports);
    ctx.count("ports.complete-enumerations");
    if !q {
        #[cfg(feature = "libsecp")]
        ports_kind::<LibsecpK>(ctx, Scheme::Secp, &ports);
        if cfg!(feature = "ed") {
            ports_kind::<EdK>(ctx, Scheme::Ed, &ports);
            ports_kind::<CombK>(ctx, Scheme::Secp, &ports);
            ports_kind::<CombK>(ctx, Scheme::Ed, &ports);
        }
    }
    // what builder methods store reads back as set, also from a builder that is built after every call and that
    // went through a failed build
    crate::props_hist::incremental_builder(ctx);
    // all 64 presence combinations of the six address/port keys, RefSig-signed, every reading key type
    let mut n = 0u64;
    for scheme in [Scheme::Secp, Scheme::Ed, Scheme::Toy] {
        let rk = own_ref(scheme, OWN);
        for mask in 0..64u32 {
            n += 1;
            if !ctx.mine(n) {
                continue;
            }
            let mut r = rng_for(ctx.seed, &["c14-presence"], n);
            for variant in 0..(if q { 3 } else { 40 }) {
                let mut rec = Rec::minimal(rk, 1 + variant);
                let port = |r: &mut dyn RngCore| Item::S(rlp::uint_bytes((if r.next_u32() % 3 == 0 { gen::PORT_EDGES[(r.next_u32() % 9) as usize] } else { r.next_u32() as u16 }) as u64));
                if mask & 1 != 0 {
                    rec.map.insert(b"ip".to_vec(), Item::S(if variant == 0 { vec![0, 0, 0, 0] } else if variant == 1 { vec![255; 4] } else { rand_bytes(&mut r, 4) }));
                }
                if mask & 2 != 0 {
                    rec.map.insert(b"ip6".to_vec(), Item::S(if variant == 0 { vec![0; 16] } else if variant == 1 { vec![255; 16] } else { rand_bytes(&mut r, 16) }));
                }
                for (bit, key) in [(4u32, &b"tcp"[..]), (8, b"tcp6"), (16, b"udp"), (32, b"udp6")] {
                    if mask & bit != 0 {
                        let p = port(&mut r);
                        rec.map.insert(key.to_vec(), p);
                    }
                }
                // client info and arbitrary raw values under other keys
                let shapes = gen::client_shapes();
                match variant % 4 {
                    _ if mask % 4 == 3 && variant < 2 => {
                        // every list shape of the client value, spread over the masks
                        rec.map.insert(b"client".to_vec(), shapes[((mask / 4) as usize * 2 + variant as usize) % shapes.len()].clone());
                    }
                    1 => {
                        rec.map.insert(b"client".to_vec(), Item::L(vec![Item::S(b"Besu".to_vec()), Item::S(vec![0xff, 0xfe])]));
                    }
                    2 => {
                        rec.map.insert(b"client".to_vec(), Item::L(vec![Item::S(vec![]), Item::S(b"v".to_vec()), Item::S("ü".as_bytes().to_vec())]));
                    }
                    0 if variant > 0 => {
                        // a string wrapping an encoded list, and a port / address wrapped the same way under another key
                        let inner = rlp::enc_item(&Item::L(vec![Item::S(b"Geth".to_vec()), Item::S(b"1".to_vec())]));
                        rec.map.insert(b"client".to_vec(), Item::S(inner));
                    }
                    3 => {
                        rec.map.insert(b"client".to_vec(), gen::custom_value(&mut r, 40));
                        let k = gen::custom_key(&mut r);
                        if !matches!(k.as_slice(), b"id" | b"secp256k1" | b"ed25519" | b"toy" | b"ip" | b"ip6" | b"tcp" | b"tcp6" | b"udp" | b"udp6") {
                            rec.map.insert(k, gen::custom_value(&mut r, 40));
                        }
                    }
                    _ => {}
                }
                if rec.size() > 300 {
                    continue;
                }
                let bytes = rec.bytes();
                ctx.count("presence-combinations");
                ctx.distinct(h64(&[&bytes]));
                macro_rules! go {
                    ($kk:ty) => {{
                        if <$kk as KeyKind>::KT.reads(scheme) {
                            let d = guard(|| {
                                let mut b: &[u8] = &bytes;
                                Enr::<<$kk as KeyKind>::K>::decode(&mut b).map(|e| {
                                    let o = light(&e);
                                    (o, e)
                                })
                            });
                            if let Ok(Ok((o, e))) = d {
                                ctx.count("evaluations");
                                let replay = || json!({"kind": "input", "class": "presence", "entry": "decode", "kt": <$kk as KeyKind>::KT.name(), "hex": hex(&bytes)});
                                // presence must match the mask exactly
                                let t = &o.typed;
                                let got = (t.ip4.is_some() as u32) | (t.ip6.is_some() as u32) << 1 | (t.tcp4.is_some() as u32) << 2 | (t.tcp6.is_some() as u32) << 3 | (t.udp4.is_some() as u32) << 4 | (t.udp6.is_some() as u32) << 5;
                                if got != mask {
                                    ctx.violate("C14", "typed-accessor-disagrees-with-raw", &format!("presence/{}", <$kk as KeyKind>::name()), || format!("mask {mask:06b} got {got:06b}"), replay);
                                }
                                check_typed(ctx, &o, &format!("presence/{}", <$kk as KeyKind>::name()), &replay);
                                crate::hist::check_get_decodable(ctx, &e, &o, "presence", &replay);
                            } else {
                                ctx.violate("C14", "valid-record-rejected", &format!("presence/{}", <$kk as KeyKind>::name()), || format!("mask {mask}"), || json!({"kind": "input", "class": "presence", "entry": "decode", "kt": <$kk as KeyKind>::KT.name(), "hex": hex(&bytes)}));
                            }
                        }
                    }};
                }
                go!(K256K);
                #[cfg(feature = "libsecp")]
                go!(LibsecpK);
                if cfg!(feature = "ed") {
                    go!(EdK);
                    go!(CombK);
                }
                go!(ToyK);
            }
        }
    }
    // every state of random histories (incl. states reached through the raw entry points)
    let opts = RunOpts::default();
    exhaustive_len1(ctx, false, &opts, &|_, _| true);
    random_histories(ctx, if q { 300 } else { 20_000 }, 20, 80, &opts, &|_, _| true);
}

// =============================================================================================
// C15 — equality, hashing, content comparison
// =============================================================================================
fn pool_check<KK: KeyKind>(ctx: &mut Ctx, states: &[Obs], scheme: Scheme, other_label: u64, replay: &dyn Fn() -> serde_json::Value) {
    // rebuild objects from their encodings (decode image), plus clones, re-signings and re-keyings
    let own = KK::make(scheme, &secret_from(scheme, OWN));
    let other = KK::make(scheme, &secret_from(scheme, other_label));
    struct Member<K: EnrKey> {
        e: Enr<K>,
        seq: u64,
        pairs: Vec<(Vec<u8>, Vec<u8>)>,
        sig: Vec<u8>,
        pubkey: Vec<u8>,
        enc: Vec<u8>,
        origin: usize,
        tag: &'static str,
    }
    let mut pool: Vec<Member<KK::K>> = Vec::new();
    let mk = |e: Enr<KK::K>, origin: usize, tag: &'static str| -> Member<KK::K> {
        Member {
            seq: e.seq(),
            pairs: e.iter().map(|(k, v)| (k.clone(), v.to_vec())).collect(),
            sig: e.signature().to_vec(),
            pubkey: e.public_key().encode().as_ref().to_vec(),
            enc: alloy_rlp::encode(&e),
            e,
            origin,
            tag,
        }
    };
    for (i, o) in states.iter().enumerate() {
        let mut b: &[u8] = &o.enc;
        let e = match guard(|| Enr::<KK::K>::decode(&mut b)) {
            Ok(Ok(e)) => e,
            _ => continue,
        };
        pool.push(mk(e.clone(), i, "clone"));
        // re-signing of the same content (fresh signature for ECDSA, same for deterministic schemes)
        let signer_is_own = o.pubkey == own.public().encode().as_ref();
        let mut e2 = e.clone();
        if guard(|| e2.set_seq(o.seq, if signer_is_own { &own } else { &other })).map(|r| r.is_ok()).unwrap_or(false) {
            pool.push(mk(e2, i, "resigned"));
        }
        // re-keying: same seq and pairs except the key
        let mut e3 = e.clone();
        if guard(|| e3.set_seq(o.seq, if signer_is_own { &other } else { &own })).map(|r| r.is_ok()).unwrap_or(false) {
            pool.push(mk(e3, i, "rekeyed"));
        }
        // one-field edit
        let mut e4 = e.clone();
        if guard(|| e4.set_seq(o.seq.wrapping_add(1), if signer_is_own { &own } else { &other })).map(|r| r.is_ok()).unwrap_or(false) {
            pool.push(mk(e4, i, "seq-edited"));
        }
        // same sequence number, content extended by a key that sorts last / shortened by its last custom
        // key / one value edited: content comparison must tell them apart although seq is equal
        let signer = if signer_is_own { &own } else { &other };
        let mut e5 = e.clone();
        if guard(|| e5.insert(b"~zz", &1u8, signer).is_ok() && e5.set_seq(o.seq, signer).is_ok()).unwrap_or(false) {
            pool.push(mk(e5, i, "extended-same-seq"));
        }
        if let Some((last_key, _)) = o.pairs.iter().rev().find(|(k, _)| k.as_slice() > &b"toy"[..] || (k.as_slice() > &b"secp256k1"[..] && k.as_slice() != b"toy")) {
            let mut e6 = e.clone();
            if guard(|| e6.remove_key(last_key, signer).is_ok() && e6.set_seq(o.seq, signer).is_ok()).unwrap_or(false) {
                pool.push(mk(e6, i, "shortened-same-seq"));
            }
        }
        let mut e7 = e.clone();
        if guard(|| e7.insert(b"a", &(i as u64 + 7), signer).is_ok() && e7.set_seq(o.seq, signer).is_ok()).unwrap_or(false) {
            pool.push(mk(e7, i, "value-edited-same-seq"));
        }
        // two records that differ only in WHERE a key ends and its value begins (same concatenated bytes)
        if i % 4 == 0 {
            let mut e8 = e.clone();
            let mut e9 = e.clone();
            if guard(|| e8.insert(b"foo", &&b"bar"[..], signer).is_ok() && e8.set_seq(o.seq, signer).is_ok()).unwrap_or(false)
                && guard(|| e9.insert(b"foo\x83ba", &&b"r"[..], signer).is_ok() && e9.set_seq(o.seq, signer).is_ok()).unwrap_or(false)
            {
                pool.push(mk(e8, i, "boundary-shift-a"));
                pool.push(mk(e9, i, "boundary-shift-b"));
            }
        }
        pool.push(mk(e, i, "decoded"));
        if pool.len() > 260 {
            break;
        }
    }
    // Clone::clone_from between different records: the slot becomes the source in every respect
    for i in 0..pool.len().min(40) {
        let j = (i * 7 + 3) % pool.len();
        let r = guard(|| {
            let mut slot = pool[j].e.clone();
            slot.clone_from(&pool[i].e);
            (slot == pool[i].e, fixed_hash(&slot) == fixed_hash(&pool[i].e), slot.node_id() == pool[i].e.node_id(), alloy_rlp::encode(&slot) == pool[i].enc)
        });
        ctx.count("evaluations");
        ctx.count("c15.clone_from");
        match r {
            Ok((true, true, true, true)) => {}
            Ok(other) => ctx.violate("C15", "clone_from-result-differs-from-source", &format!("{}-into-{}", pool[i].tag, pool[j].tag), || format!("(==, same hash, same node id, same encoding) = {other:?}"), replay),
            Err(p) => ctx.violate("C03", "panic", &format!("clone_from/{}", panic_sig(&p)), || p.clone(), replay),
        }
    }
    let n = pool.len();
    let mut eqm = vec![false; n * n];
    for i in 0..n {
        for j in 0..n {
            let (a, b) = (&pool[i], &pool[j]);
            let eq = a.e == b.e;
            eqm[i * n + j] = eq;
            // the other operator of the same trait, and both through references / tuples (derived impls delegate)
            #[allow(clippy::nonminimal_bool)]
            let (ne, ne_ref, ne_tuple) = (a.e != b.e, &a.e != &b.e, (1u8, &a.e) != (1u8, &b.e));
            if ne == eq || ne_ref == eq || ne_tuple == eq {
                ctx.violate("C15", "ne-is-not-the-negation-of-eq", &format!("{}-vs-{}", a.tag, b.tag), || format!("a == b is {eq}, a != b is {ne} (by reference {ne_ref}, in a tuple {ne_tuple})"), replay);
            }
            ctx.count("evaluations");
            ctx.count("c15.pairs");
            let cls = format!("{}-vs-{}", a.tag, b.tag);
            if i == j && !eq {
                ctx.violate("C15", "not-reflexive", a.tag, || "a != a".into(), replay);
            }
            if eq {
                ctx.count("c15.equal-pairs");
                if fixed_hash(&a.e) != fixed_hash(&b.e) {
                    ctx.violate("C15", "equal-records-hash-differently", &cls, || "".into(), replay);
                }
                // (record equality is signature-based by design: a scheme whose signatures are a few bytes long —
                // the short-signature Toy key — has colliding signatures over different contents by chance, which is
                // a property of that scheme and not of the library; the implication is claimed for signatures of at
                // least 16 bytes)
                if (a.pairs != b.pairs || a.enc != b.enc) && a.sig.len() >= 16 {
                    ctx.violate("C15", "equal-records-differ-in-content-or-encoding", &cls, || format!("{} vs {}", hex(&a.enc), hex(&b.enc)), replay);
                } else if a.pairs != b.pairs {
                    ctx.count("c15.short-signature-collisions");
                }
            }
            if (a.seq != b.seq || a.pubkey != b.pubkey || a.sig != b.sig) && eq {
                ctx.violate("C15", "records-with-different-seq-key-or-signature-equal", &cls, || format!("seq {}/{} key-equal {} sig-equal {}", a.seq, b.seq, a.pubkey == b.pubkey, a.sig == b.sig), replay);
            }
            if a.origin == b.origin && matches!((a.tag, b.tag), ("clone", "decoded") | ("decoded", "clone")) && !eq {
                ctx.violate("C15", "record-differs-from-its-clone-or-decode-image", &cls, || "".into(), replay);
            }
            let cc = a.e.compare_content(&b.e);
            let want = a.seq == b.seq && a.pairs == b.pairs;
            if cc {
                ctx.count("c15.content-equal-pairs");
            }
            if cc != want {
                ctx.violate("C15", "compare_content-wrong", &cls, || format!("compare_content {cc}, same seq {} same pairs {}", a.seq == b.seq, a.pairs == b.pairs), replay);
            }
            ctx.distinct(h64(&[&a.enc, &b.enc]));
        }
    }
    for i in 0..n {
        for j in 0..n {
            if eqm[i * n + j] != eqm[j * n + i] {
                ctx.violate("C15", "not-symmetric", "", || "".into(), replay);
            }
            if eqm[i * n + j] {
                for k in 0..n {
                    if eqm[j * n + k] && !eqm[i * n + k] {
                        ctx.violate("C15", "not-transitive", "", || "".into(), replay);
                    }
                }
            }
        }
    }
}

pub fn c15(ctx: &mut Ctx) {
    let q = ctx.quick();
    let opts = RunOpts { full_state_checks: true, keep_states: true };
    // records at the size limit at the sequence numbers whose increment grows the encoding: whatever the
    // library hands out there must still equal its decode-after-encode image
    {
        let mut n = 0u64;
        for (kt, scheme) in kinds() {
            let key = own_ref(scheme, OWN);
            for seq in [127u64, 255, 65_535] {
                for target in 297..=300usize {
                    for op in [Op::SetUdp4(40_000), Op::Insert(b"x".to_vec(), Val::B(vec![9, 9, 9])), Op::SetTcpSocket("8.8.4.4:443".parse().unwrap())] {
                        n += 1;
                        if !ctx.mine(n) {
                            continue;
                        }
                        let mut rec = Rec::minimal(key, seq);
                        rec.map.insert(b"ip".to_vec(), Item::S(vec![8, 8, 4, 4]));
                        rec.map.insert(b"tcp".to_vec(), Item::S(vec![0x01, 0xbb]));
                        rec.map.insert(b"udp".to_vec(), Item::S(vec![0x9c, 0x40]));
                        rec.map.insert(b"x".to_vec(), Item::S(vec![9, 9, 9]));
                        if let Some(r2) = gen::pad_to(&rec, b"pad", target) {
                            let h = mk_history(scheme, OWN, OTHER, &crate::hist::Init::Decode(r2.bytes()), vec![Step { op, signer: Signer::Own }]);
                            run_hist_kt(ctx, kt, false, &h, &opts);
                            ctx.count("c15.size-boundary-cases");
                        }
                    }
                }
            }
        }
    }
    let total = ctx.vol(if q { 160 } else { 12_000 });
    let ks = kinds();
    for i in 0..total {
        if !ctx.mine(i) {
            continue;
        }
        if ctx.expired() {
            ctx.count("deadline-stops");
            return;
        }
        let mut r = rng_for(ctx.seed, &["c15"], i);
        let (kt, scheme) = ks[(i / ctx.nshards) as usize % ks.len()];
        let mut h = { let len = 12 + below(&mut r, 30) as usize; random_history(&mut r, scheme, len) };
        h.own = OWN;
        h.other = if h.other >> 63 == 1 { OWN | (1u64 << 63) } else { OTHER };
        if let crate::hist::Init::Decode(_) = h.init {
            h.init = crate::hist::Init::Build(vec![BEntry::Udp4(1), BEntry::Add(b"x".to_vec(), Val::U8(3))]);
        }
        if i % 3 == 2 {
            // start near the size limit, so that failing updates (incl. re-keying ones) occur
            let key = own_ref(scheme, OWN);
            let mut rec = Rec::minimal(key, 300 + i);
            rec.map.insert(b"x".to_vec(), Item::S(vec![5]));
            if let Some(r2) = gen::pad_to(&rec, b"pad", 296 + (i % 5) as usize) {
                h.init = crate::hist::Init::Decode(r2.bytes());
            }
        }
        let st = run_hist_kt(ctx, kt, false, &h, &opts);
        let replay = || json!({"kind": "history", "kt": kt.name(), "faulty": false, "pool": true, "history": serde_json::to_value(&h).unwrap()});
        match kt {
            KT::K256 => pool_check::<K256K>(ctx, &st.states, scheme, h.other, &replay),
            #[cfg(feature = "libsecp")]
            KT::Libsecp => pool_check::<LibsecpK>(ctx, &st.states, scheme, h.other, &replay),
            #[cfg(not(feature = "libsecp"))]
            KT::Libsecp => {}
            KT::Ed => pool_check::<EdK>(ctx, &st.states, scheme, h.other, &replay),
            KT::Comb => pool_check::<CombK>(ctx, &st.states, scheme, h.other, &replay),
            KT::Toy => pool_check::<ToyK>(ctx, &st.states, scheme, h.other, &replay),
        }
        ctx.count("pools");
    }
}

// =============================================================================================
// C16 — NodeId
// =============================================================================================
pub fn c16(ctx: &mut Ctx) {
    let q = ctx.quick();
    ctx.phase(0.4);
    let n = ctx.vol(if q { 20_000 } else { 2_000_000 });
    let viol = |ctx: &mut Ctx, rule: &str, class: &str, detail: String, input: serde_json::Value| {
        ctx.violate("C16", rule, class, || detail.clone(), || json!({"kind": "nodeid", "input": input}));
    };
    // every code point U+0000..U+017F at a digit position (first, middle, last), with and without prefix: only the
    // 22 hex digits may be accepted
    {
        let base = "00112233445566778899aabbccddeeff00112233445566778899aabbccddeeff";
        for cp in 0u32..0x180 {
            if !ctx.mine(cp as u64) || (cfg!(miri) && ctx.expired()) {
                continue;
            }
            let ch = char::from_u32(cp).unwrap();
            for pos in [0usize, 31, 63] {
                for pfx in ["", "0x"] {
                    let mut cs: Vec<char> = base.chars().collect();
                    cs[pos] = ch;
                    let sv = format!("{pfx}{}", cs.iter().collect::<String>());
                    let want = ch.is_ascii_hexdigit();
                    // through text (escaped by serde_json) and through an owned Value
                    let doc = serde_json::to_string(&sv).unwrap();
                    let r1 = guard(|| serde_json::from_str::<NodeId>(&doc).is_ok());
                    let r2 = guard(|| serde_json::from_value::<NodeId>(serde_json::Value::String(sv.clone())).is_ok());
                    ctx.add("evaluations", 2);
                    ctx.count("nodeid.codepoint-sweep");
                    for (path, r) in [("from_str", r1), ("from_value", r2)] {
                        match r {
                            Err(p) => {
                                ctx.violate("C03", "panic", &format!("NodeId-json/{}", panic_sig(&p)), || format!("{sv:?}: {p}"), || json!({"kind": "nodeid", "input": sv}));
                                ctx.violate("C16", "string-neither-accepted-nor-rejected", &format!("codepoint/{path}"), || format!("{sv:?}: {p}"), || json!({"kind": "nodeid", "input": sv}));
                            }
                            Ok(ok) if ok != want => ctx.violate("C16", if want { "valid-hex-rejected" } else { "malformed-hex-accepted" }, &format!("codepoint/{path}"), || format!("U+{cp:04X} at {pos}: {sv:?} accepted={ok}"), || json!({"kind": "nodeid", "input": sv})),
                            _ => {}
                        }
                    }
                }
            }
        }
        // multi-byte characters at every early byte offset, for every total byte length 58..=72
        for total in 58..=72usize {
            if !ctx.mine(total as u64) || (cfg!(miri) && ctx.expired()) {
                continue;
            }
            for ch in ['é', '€', '😀'] {
                for at in 0..6usize {
                    let clen = ch.len_utf8();
                    if at + clen > total {
                        continue;
                    }
                    let mut sv = String::new();
                    sv.push_str(&"0x0a1b2c"[..at.min(8)]);
                    while sv.len() < at {
                        sv.push('a');
                    }
                    sv.push(ch);
                    while sv.len() < total {
                        sv.push('b');
                    }
                    let doc = serde_json::to_string(&sv).unwrap();
                    ctx.count("evaluations");
                    ctx.count("nodeid.multibyte-offsets");
                    match guard(|| serde_json::from_str::<NodeId>(&doc).is_ok()) {
                        Err(p) => {
                            ctx.violate("C03", "panic", &format!("NodeId-json/{}", panic_sig(&p)), || format!("{sv:?}: {p}"), || json!({"kind": "nodeid", "input": sv}));
                            ctx.violate("C16", "string-neither-accepted-nor-rejected", "multibyte", || format!("{sv:?}: {p}"), || json!({"kind": "nodeid", "input": sv}));
                        }
                        Ok(true) => ctx.violate("C16", "malformed-hex-accepted", "multibyte", || format!("{sv:?}"), || json!({"kind": "nodeid", "input": sv})),
                        Ok(false) => {}
                    }
                }
            }
        }
    }
    ctx.phase(0.7);
    // parse: all slice lengths 0..=64 (complete), several fills
    for len in 0..=64usize {
        if !ctx.mine(len as u64) {
            continue;
        }
        for fill in [0x00u8, 0x01, 0xab, 0xff] {
            let v = vec![fill; len];
            ctx.count("evaluations");
            ctx.count("nodeid.parse-lengths");
            let r = NodeId::parse(&v);
            if (len == 32) != r.is_ok() {
                ctx.violate("C16", "parse-length-not-strict", if len < 32 { "shorter" } else if len == 32 { "exact" } else { "longer" }, || format!("parse of {len} bytes: {:?}", r.is_ok()), || json!({"kind": "nodeid-parse", "hex": hex(&v)}));
            }
        }
    }
    // hex strings of length 0..=70, with and without prefix
    for len in 0..=70usize {
        if !ctx.mine(len as u64) {
            continue;
        }
        for (pfx, ch) in [("", 'a'), ("0x", 'a'), ("", 'F'), ("0x", '0'), ("0x", 'g')] {
            let s = format!("{pfx}{}", std::iter::repeat(ch).take(len).collect::<String>());
            ctx.count("evaluations");
            ctx.count("nodeid.hex-lengths");
            let ok = serde_json::from_str::<NodeId>(&format!("\"{s}\"")).is_ok();
            let want = len == 64 && ch != 'g';
            if ok != want {
                ctx.violate("C16", if want { "valid-hex-rejected" } else { "malformed-hex-accepted" }, &format!("length/{pfx}"), || format!("{s:?} accepted={ok}"), || json!({"kind": "nodeid", "input": s}));
            }
        }
    }
    for i in 0..n {
        if !ctx.mine(i) {
            continue;
        }
        if ctx.expired() {
            break;
        }
        let mut r = rng_for(ctx.seed, &["c16"], i);
        let mut raw = [0u8; 32];
        match i % 8 {
            0 => raw = [0u8; 32],
            1 => raw = [0xff; 32],
            2 => raw[0] = 1,
            3 => raw[31] = 1,
            4 => raw.iter_mut().enumerate().for_each(|(k, v)| *v = k as u8),
            _ => r.fill_bytes(&mut raw),
        }
        if i % 8 < 5 && i >= 8 {
            raw[(i % 32) as usize] ^= (i >> 3) as u8;
        }
        if i % 8 == 5 {
            // special byte values at the positions the short form prints and at their neighbours
            let pos = [0usize, 1, 2, 15, 16, 29, 30, 31][((i >> 3) % 8) as usize];
            raw[pos] = [0x00u8, 0x01, 0x0f, 0x10, 0x7f, 0x80, 0xa0, 0xff][((i >> 6) % 8) as usize];
        }
        ctx.count("evaluations");
        ctx.distinct(h64(&[&raw]));
        let hexs = hex(&raw);
        let a = NodeId::new(&raw);
        let b = NodeId::from(raw);
        let c = NodeId::parse(&raw);
        let inp = json!(hexs);
        if a.raw() != raw || a.as_ref() != &raw[..] || !(a == raw) || b.raw() != raw || a != b {
            viol(ctx, "bytes-not-preserved", "new/from", "".into(), inp.clone());
        }
        match c {
            Ok(c) => {
                if c.raw() != raw || c != a {
                    viol(ctx, "bytes-not-preserved", "parse", "".into(), inp.clone());
                }
            }
            Err(e) => viol(ctx, "parse-rejects-32-bytes", "", e.to_string(), inp.clone()),
        }
        if fixed_hash(&a) != fixed_hash(&b) {
            viol(ctx, "equal-ids-hash-differently", "", "".into(), inp.clone());
        }
        // forms
        let js = serde_json::to_string(&a).unwrap_or_default();
        if js != format!("\"0x{hexs}\"") {
            viol(ctx, "json-form", "serialize", js.clone(), inp.clone());
        }
        if serde_json::to_value(a).ok() != Some(serde_json::Value::String(format!("0x{hexs}"))) {
            viol(ctx, "json-form", "to_value", "".into(), inp.clone());
        }
        // the other ways a document reaches Deserialize: an owned Value, a reader, an escaped string
        let doc = format!("\"0x{hexs}\"");
        let esc = format!("\"\\u0030x{hexs}\"");
        let roomy = {
            let mut s = String::with_capacity(4096);
            s.push_str("0x");
            s.push_str(&hexs);
            s
        };
        let variants: [(&str, Result<NodeId, String>); 5] = [
            ("from_value-roomy-string", serde_json::from_value::<NodeId>(serde_json::Value::String(roomy.clone())).map_err(|e| e.to_string())),
            ("from_value", serde_json::from_value::<NodeId>(serde_json::Value::String(format!("0x{hexs}"))).map_err(|e| e.to_string())),
            ("from_reader", serde_json::from_reader::<_, NodeId>(doc.as_bytes()).map_err(|e| e.to_string())),
            ("escaped", serde_json::from_str::<NodeId>(&esc).map_err(|e| e.to_string())),
            ("from_slice", serde_json::from_slice::<NodeId>(doc.as_bytes()).map_err(|e| e.to_string())),
        ];
        for (cls, r) in variants {
            ctx.count("evaluations");
            match r {
                Ok(d) if d.raw() == raw => {}
                Ok(_) => viol(ctx, "deserialised-id-differs", cls, doc.clone(), inp.clone()),
                Err(e) => viol(ctx, "valid-hex-rejected", cls, format!("{doc}: {e}"), inp.clone()),
            }
        }
        // a map key and a struct field (serde_json turns map keys into strings)
        if i % 16 == 0 {
            let mut m = std::collections::HashMap::new();
            m.insert(a, 1u8);
            let back: Result<std::collections::HashMap<NodeId, u8>, _> = serde_json::to_string(&m).map_err(|e| e.to_string()).and_then(|t| serde_json::from_str(&t).map_err(|e| e.to_string()));
            if back.as_ref().ok() != Some(&m) {
                viol(ctx, "deserialised-id-differs", "map-key", format!("{back:?}"), inp.clone());
            }
        }
        if format!("{a:?}") != format!("0x{hexs}") {
            viol(ctx, "debug-form", "", format!("{a:?}"), inp.clone());
        }
        if format!("{a}") != format!("0x{}..{}", &hexs[..4], &hexs[60..]) {
            viol(ctx, "display-form", "", format!("{a}"), inp.clone());
        }
        // the same under formatter flags and inside other values' Debug output (pretty printing passes `#` down)
        if format!("{a:#?}") != format!("0x{hexs}") {
            viol(ctx, "debug-form", "alternate-flag", format!("{a:#?}"), inp.clone());
        }
        if format!("{a:#}") != format!("{a}") {
            viol(ctx, "display-form", "alternate-flag", format!("{a:#}"), inp.clone());
        }
        for nested in [format!("{:#?}", Some(a)), format!("{:#?}", vec![a]), format!("{:?}", (a, 1u8))] {
            if nested.matches("0x").count() != 1 || !nested.contains(&format!("0x{hexs}")) {
                viol(ctx, "debug-form", "nested", nested.clone(), inp.clone());
            }
        }
        // NodeId == [u8; 32] for arrays that differ in several places, also with differences that cancel under xor
        {
            let mut two = raw;
            two[3] ^= 0x5a;
            two[17] ^= 0x5a;
            let mut swapped = raw;
            swapped.swap(0, 31);
            let mut inv = raw;
            inv.iter_mut().for_each(|b| *b ^= 0xff);
            let mut pairwise = raw;
            for k in (0..32).step_by(2) {
                pairwise[k] ^= 0x11;
                pairwise[k + 1] ^= 0x11;
            }
            ctx.count("nodeid.raw-eq-cases");
            for (cls, other) in [("two-bytes-same-mask", two), ("first-last-swapped", swapped), ("all-inverted", inv), ("pairwise-same-mask", pairwise)] {
                if other != raw && (a == other || NodeId::new(&other) == a) {
                    viol(ctx, "id-equals-other-bytes", cls, hex(&other), inp.clone());
                }
            }
            if !(a == raw) {
                viol(ctx, "id-differs-from-own-bytes", "", "".into(), inp.clone());
            }
        }
        // deserialisation: accepted forms
        let upper = hexs.to_uppercase();
        let mixed: String = hexs.chars().enumerate().map(|(k, ch)| if k % 2 == 0 { ch.to_ascii_uppercase() } else { ch }).collect();
        for (cls, s) in [("0x-lower", format!("0x{hexs}")), ("bare-lower", hexs.clone()), ("0x-upper", format!("0x{upper}")), ("bare-mixed", mixed.clone())] {
            ctx.count("evaluations");
            ctx.count("nodeid.accept-forms");
            match serde_json::from_str::<NodeId>(&format!("\"{s}\"")) {
                Ok(d) if d.raw() == raw => {}
                Ok(_) => viol(ctx, "deserialised-id-differs", cls, s.clone(), inp.clone()),
                Err(e) => viol(ctx, "valid-hex-rejected", cls, format!("{s}: {e}"), inp.clone()),
            }
        }
        // deserialisation: everything else is rejected
        if i % 4 == 0 {
            let mut bad: Vec<(&str, String)> = vec![
                ("double-prefix", format!("0x0x{hexs}")),
                ("upper-prefix", format!("0X{hexs}")),
                ("leading-space", format!(" 0x{hexs}")),
                ("trailing-space", format!("0x{hexs} ")),
                ("inner-space", format!("0x{} {}", &hexs[..32], &hexs[32..])),
                ("short", format!("0x{}", &hexs[..62])),
                ("short-odd", format!("0x{}", &hexs[..63])),
                ("long", format!("0x{hexs}00")),
                ("long-odd", format!("0x{hexs}0")),
                ("empty", String::new()),
                ("prefix-only", "0x".into()),
                ("x-only", format!("x{hexs}")),
            ];
            let pos = below(&mut r, 64) as usize;
            for ch in ['g', 'G', 'z', ' ', '-', '_', 'x', 'é', '\n'] {
                let mut cs: Vec<char> = hexs.chars().collect();
                cs[pos] = ch;
                bad.push(("non-hex-char", format!("0x{}", cs.iter().collect::<String>())));
                let mut cs2: Vec<char> = hexs.chars().collect();
                cs2[pos] = ch;
                bad.push(("non-hex-char", cs2.iter().collect::<String>()));
            }
            for (cls, s) in bad {
                ctx.count("evaluations");
                ctx.count("nodeid.reject-forms");
                let doc = serde_json::to_string(&s).unwrap();
                if let Ok(d) = serde_json::from_str::<NodeId>(&doc) {
                    viol(ctx, "malformed-hex-accepted", cls, format!("{s:?} => {:?}", d), json!(s));
                }
            }
        }
    }
}

// =============================================================================================
// C17 — CombinedKey secret import/export
// =============================================================================================
#[cfg(not(feature = "ed"))]
pub fn c17(ctx: &mut Ctx) {
    ctx.notes.push("CombinedKey does not exist in the default-feature build".into());
}

#[cfg(not(feature = "ed"))]
pub fn replay_key_import(_ctx: &mut Ctx, _which: &str, _bytes: &[u8]) {}

#[cfg(feature = "ed")]
pub fn c17(ctx: &mut Ctx) {
    let q = ctx.quick();
    let n = ctx.vol(if q { 6000 } else { 400_000 });
    let one = {
        let mut o = [0u8; 32];
        o[31] = 1;
        o
    };
    let edges: Vec<[u8; 32]> = vec![
        u256::ZERO,
        one,
        u256::sub(&u256::N, &one),
        u256::N,
        u256::add_small(&u256::N, 1),
        [0xff; 32],
        u256::HALF_N,
        u256::add_small(&u256::HALF_N, 1),
        u256::P,
        {
            let mut o = u256::N;
            o[0] = 0;
            o
        },
    ];
    for i in 0..n {
        if !ctx.mine(i) {
            continue;
        }
        if ctx.expired() {
            break;
        }
        let mut r = rng_for(ctx.seed, &["c17"], i);
        let secret: [u8; 32] = if (i as usize) < edges.len() * 4 {
            edges[i as usize % edges.len()]
        } else if i % 16 == 0 {
            // near n: n ± small
            let d = below(&mut r, 200) as u8;
            if i % 32 == 0 {
                u256::add_small(&u256::N, d)
            } else {
                let mut dd = [0u8; 32];
                dd[31] = d;
                u256::sub(&u256::N, &dd)
            }
        } else {
            let mut s = [0u8; 32];
            r.fill_bytes(&mut s);
            if i % 7 == 0 {
                s[..16].iter_mut().for_each(|b| *b = 0xff);
            }
            s
        };
        let secret: [u8; 32] = if i % 13 == 5 {
            // secrets that look like text: "0x…", hex digits, "enr:", PEM dashes
            let pats: [&[u8]; 6] = [b"0x", b"0X", b"enr:", b"----", b"0123456789abcdef0123456789abcdef", b"{\"k\":"];
            let pat = pats[(i / 13 % 6) as usize];
            let mut s2 = secret;
            s2[..pat.len().min(32)].copy_from_slice(&pat[..pat.len().min(32)]);
            s2
        } else {
            secret
        };
        let secret: [u8; 32] = if i % 17 == 9 {
            // secrets whose 32 bytes happen to be a well-formed document of another key format: DER (SEC1
            // ECPrivateKey, bare OCTET STRING / INTEGER / SEQUENCE with consistent lengths), RLP and CBOR strings
            let pats: [&[u8]; 12] = [
                &[0x30, 0x1e, 0x02, 0x01, 0x01, 0x04, 0x19], &[0x30, 0x1e, 0x02, 0x01, 0x00, 0x04, 0x19], &[0x30, 0x1e, 0x04, 0x1c], &[0x04, 0x1e], &[0x02, 0x1e], &[0x30, 0x1e],
                &[0x30, 0x1e, 0x02, 0x01, 0x01, 0x04, 0x18, 0x01], &[0x9f], &[0xb8, 0x1e], &[0x58, 0x1e], &[0x30, 0x1e, 0x02, 0x01, 0x01, 0x04, 0x19, 0x00], &[0x03, 0x1e, 0x00],
            ];
            let pat = pats[(i / 17 % 12) as usize];
            let mut s2 = secret;
            s2[..pat.len()].copy_from_slice(pat);
            s2
        } else {
            secret
        };
        let secret: [u8; 32] = if i % 11 == 3 {
            // leading / trailing zero bytes
            let mut s2 = secret;
            let nz = 1 + (i / 11 % 12) as usize;
            if i % 2 == 0 {
                s2[..nz].iter_mut().for_each(|b| *b = 0);
            } else {
                s2[32 - nz..].iter_mut().for_each(|b| *b = 0);
            }
            s2
        } else {
            secret
        };
        ctx.distinct(h64(&[&secret]));
        let sh = hex(&secret);
        // the 32 bytes handed over are the middle of a larger buffer: only they may change
        for which in ["secp", "ed"] {
            let mut big = [0xa5u8; 48];
            big[8..40].copy_from_slice(&secret);
            let ok = guard(|| {
                if which == "secp" {
                    enr::CombinedKey::secp256k1_from_bytes(&mut big[8..40]).is_ok()
                } else {
                    enr::CombinedKey::ed25519_from_bytes(&mut big[8..40]).is_ok()
                }
            });
            ctx.count("evaluations");
            ctx.count("c17.guarded-buffers");
            if let Ok(ok) = ok {
                if big[..8] != [0xa5; 8] || big[40..] != [0xa5; 8] {
                    ctx.violate("C17", "bytes-outside-the-callers-slice-changed", which, || hex(&big), || json!({"kind": "key-import", "which": which, "hex": sh}));
                }
                if ok && big[8..40] != [0u8; 32] {
                    ctx.violate("C17", "caller-buffer-not-wiped", which, || hex(&big[8..40]), || json!({"kind": "key-import", "which": which, "hex": sh}));
                }
            }
        }
        // two different secrets made of the same 8-byte words, imported back to back: each gets ITS key
        if i % 5 == 1 {
            let mut rot = [0u8; 32];
            rot[..24].copy_from_slice(&secret[8..]);
            rot[24..].copy_from_slice(&secret[..8]);
            let mut sw = secret;
            sw.swap(0, 8);
            for second in [rot, sw] {
                if second == secret {
                    continue;
                }
                for which in ["ed", "secp"] {
                    let r = guard(|| {
                        let (mut a, mut b2) = (secret, second);
                        if which == "ed" {
                            let _ = enr::CombinedKey::ed25519_from_bytes(&mut a);
                            enr::CombinedKey::ed25519_from_bytes(&mut b2).ok().map(|k| (k.public().encode(), k.encode()))
                        } else {
                            let _ = enr::CombinedKey::secp256k1_from_bytes(&mut a);
                            enr::CombinedKey::secp256k1_from_bytes(&mut b2).ok().map(|k| (k.public().encode(), k.encode()))
                        }
                    });
                    ctx.count("evaluations");
                    ctx.count("c17.back-to-back-imports");
                    if let Ok(Some((pk, exp))) = r {
                        let want = if which == "ed" { Some(sig::ed_pub(&second).to_vec()) } else { sig::secp_pub(&second).map(|p| p.to_vec()) };
                        if Some(pk) != want || exp != second {
                            ctx.violate("C17", "public-key-differs-from-independent-derivation", &format!("{which}/back-to-back"), || format!("import of {} right after {}", hex(&second), sh), || json!({"kind": "key-import", "which": which, "hex": hex(&second), "after": sh}));
                        }
                    }
                }
            }
        }
        if i % 64 == 3 && !cfg!(miri) {
            crate::props::combined_direct(ctx, Scheme::Secp, 7000 + i, &secret[..(i % 33) as usize]);
            crate::props::combined_direct(ctx, Scheme::Ed, 7000 + i, &secret[..(i % 33) as usize]);
        }
        // keys the library GENERATES: the export is 32 bytes whose independent derivation gives the key's public
        // key, and importing the export gives the same key again
        if i % 64 == 2 && !cfg!(miri) {
            for which in ["secp", "ed"] {
                let r = guard(|| {
                    let k = if which == "secp" { enr::CombinedKey::generate_secp256k1() } else { enr::CombinedKey::generate_ed25519() };
                    let exp = k.encode();
                    let mut again = exp.clone();
                    let k2 = if which == "secp" { enr::CombinedKey::secp256k1_from_bytes(&mut again) } else { enr::CombinedKey::ed25519_from_bytes(&mut again) };
                    (k.public().encode(), exp, k2.ok().map(|k2| (k2.public().encode(), k2.encode())))
                });
                ctx.count("evaluations");
                ctx.count("c17.generated-keys");
                match r {
                    Err(p) => ctx.violate("C03", "panic", &format!("generate/{}", panic_sig(&p)), || p.clone(), || json!({"kind": "note", "what": "generated key", "which": which})),
                    Ok((pk, exp, again)) => {
                        let want = if exp.len() == 32 {
                            let s32 = u256::from_slice(&exp);
                            if which == "ed" { Some(sig::ed_pub(&s32).to_vec()) } else { sig::secp_pub(&s32).map(|p| p.to_vec()) }
                        } else {
                            None
                        };
                        if want.as_ref() != Some(&pk) || again != Some((pk.clone(), exp.clone())) {
                            ctx.violate("C17", "export-differs-from-import", &format!("{which}/generated"), || format!("generated key: export {} public {}", hex(&exp), hex(&pk)), || json!({"kind": "note", "what": "generated key", "which": which, "export": hex(&exp)}));
                        }
                    }
                }
            }
        }
        // ---- secp256k1
        {
            let mut buf = secret;
            let res = guard(|| enr::CombinedKey::secp256k1_from_bytes(&mut buf));
            ctx.count("evaluations");
            let replay = || json!({"kind": "key-import", "which": "secp", "hex": sh});
            let want = sig::secp_secret_valid(&secret);
            match res {
                Err(p) => ctx.violate("C03", "panic", &format!("secp256k1_from_bytes/{}", panic_sig(&p)), || p.clone(), replay),
                Ok(Err(_)) => {
                    ctx.count("c17.secp.rejected");
                    if want {
                        ctx.violate("C17", "valid-secret-rejected", "secp256k1", || sh.clone(), replay);
                    }
                }
                Ok(Ok(k)) => {
                    ctx.count("c17.secp.accepted");
                    if !want {
                        ctx.violate("C17", "invalid-secret-accepted", "secp256k1", || sh.clone(), replay);
                    } else {
                        let want_pub = sig::secp_pub(&secret).map(|p| p.to_vec());
                        if Some(k.public().encode()) != want_pub {
                            ctx.violate("C17", "public-key-differs-from-independent-derivation", "secp256k1", || sh.clone(), replay);
                        }
                        if k.encode() != secret {
                            ctx.violate("C17", "export-differs-from-import", "secp256k1", || hex(&k.encode()), replay);
                        }
                        if buf != [0u8; 32] {
                            ctx.violate("C17", "caller-buffer-not-wiped", "secp256k1", || hex(&buf), replay);
                        }
                        if i % 8 == 0 {
                            sign_and_check(ctx, &k, Scheme::Secp, &want_pub.unwrap_or_default(), &replay);
                        }
                    }
                }
            }
        }
        // ---- ed25519 (every 32-byte string is a valid secret)
        {
            let mut buf = secret;
            let res = guard(|| enr::CombinedKey::ed25519_from_bytes(&mut buf));
            ctx.count("evaluations");
            let replay = || json!({"kind": "key-import", "which": "ed", "hex": sh});
            match res {
                Err(p) => ctx.violate("C03", "panic", &format!("ed25519_from_bytes/{}", panic_sig(&p)), || p.clone(), replay),
                Ok(Err(_)) => ctx.violate("C17", "valid-secret-rejected", "ed25519", || sh.clone(), replay),
                Ok(Ok(k)) => {
                    ctx.count("c17.ed.accepted");
                    let want_pub = sig::ed_pub(&secret).to_vec();
                    if k.public().encode() != want_pub {
                        ctx.violate("C17", "public-key-differs-from-independent-derivation", "ed25519", || sh.clone(), replay);
                    }
                    if k.encode() != secret {
                        ctx.violate("C17", "export-differs-from-import", "ed25519", || hex(&k.encode()), replay);
                    }
                    if buf != [0u8; 32] {
                        ctx.violate("C17", "caller-buffer-not-wiped", "ed25519", || hex(&buf), replay);
                    }
                    if i % 8 == 0 {
                        sign_and_check(ctx, &k, Scheme::Ed, &want_pub, &replay);
                    }
                }
            }
            // wrong lengths: patterned, and inputs that EMBED the valid secret the way other key formats do
            // (seed || public key, public key || seed, seed || seed, padded seeds, the seed as hex text)
            if i % 16 == 0 {
                let pk = sig::ed_pub(&secret).to_vec();
                let mut shaped: Vec<Vec<u8>> = [0usize, 1, 16, 31, 33, 48, 64, 65, 96].iter().map(|&len| vec![0x42u8; len]).collect();
                shaped.push([secret.to_vec(), pk.clone()].concat());
                shaped.push([pk.clone(), secret.to_vec()].concat());
                shaped.push([secret.to_vec(), secret.to_vec()].concat());
                shaped.push([secret.to_vec(), vec![0u8; 32]].concat());
                shaped.push([vec![0u8], secret.to_vec()].concat());
                shaped.push([secret.to_vec(), vec![0u8]].concat());
                shaped.push(secret[..31].to_vec());
                shaped.push(secret[1..].to_vec());
                shaped.push(hex(&secret).into_bytes());
                shaped.push([vec![0x04, 0x20], secret.to_vec()].concat());
                for v0 in shaped {
                    let mut v = v0.clone();
                    let ok = guard(|| enr::CombinedKey::ed25519_from_bytes(&mut v).is_ok()).unwrap_or(false);
                    ctx.count("evaluations");
                    ctx.count("c17.ed.wrong-length");
                    if ok {
                        ctx.violate("C17", "wrong-length-secret-accepted", "ed25519", || format!("{} bytes", v0.len()), || json!({"kind": "key-import", "which": "ed", "hex": hex(&v0)}));
                    }
                }
            }
        }
    }
}

#[cfg(feature = "ed")]
fn sign_and_check(ctx: &mut Ctx, k: &enr::CombinedKey, scheme: Scheme, want_pub: &[u8], replay: &dyn Fn() -> serde_json::Value) {
    let e = guard(|| apply_build::<enr::CombinedKey>(&[BEntry::Udp4(30303), BEntry::Add(b"x".to_vec(), Val::B(vec![1, 2, 3]))], k));
    ctx.count("evaluations");
    ctx.count("c17.signed-records");
    match e {
        Ok(Ok(e)) => {
            let pairs: Vec<(Vec<u8>, Vec<u8>)> = e.iter().map(|(k, v)| (k.clone(), v.to_vec())).collect();
            let map: Pairs = pairs.into_iter().collect();
            let content = content_bytes(e.seq(), &map);
            let stored = map.get(scheme.enr_key()).and_then(|r| rlp::as_str(r).map(|s| s.to_vec()));
            if stored.as_deref() != Some(want_pub) {
                ctx.violate("C17", "record-carries-another-public-key", scheme.name(), || "".into(), replay);
            }
            if !sig::verify(scheme, want_pub, &content, e.signature()) {
                ctx.violate("C17", "record-signed-with-imported-key-does-not-verify", scheme.name(), || hex(e.signature()), replay);
            }
        }
        Ok(Err(er)) => ctx.violate("C17", "cannot-build-with-imported-key", scheme.name(), || format!("{er:?}"), replay),
        Err(p) => ctx.violate("C03", "panic", &format!("build/{}", panic_sig(&p)), || p.clone(), replay),
    }
}

pub fn replay_text(ctx: &mut Ctx, s: &str, via_json: bool) {
    judge_text_one(ctx, "replay", s, via_json);
}

pub fn replay_stream(ctx: &mut Ctx, item: &[u8], suffix: &[u8]) {
    let mut buf = item.to_vec();
    buf.extend_from_slice(suffix);
    for kt in dec::kts() {
        let alone = dec::decode_kt(kt, item);
        let with = dec::decode_kt(kt, &buf);
        let replay = || json!({"kind": "stream", "kt": kt.name(), "item": hex(item), "suffix": hex(suffix)});
        if let Err(why) = same_outcome(&alone, &with) {
            ctx.violate("C13", "outcome-depends-on-following-bytes", &format!("{why}/{}", kt.name()), || why.to_string(), replay);
        } else if with.res.is_ok() && with.remaining != suffix.len() {
            ctx.violate("C13", "buffer-not-advanced-by-item-length", kt.name(), || format!("remaining {}", with.remaining), replay);
        }
    }
}


#[cfg(feature = "ed")]
pub fn replay_key_import(ctx: &mut Ctx, which: &str, bytes: &[u8]) {
    let replay = || json!({"kind": "key-import", "which": which, "hex": hex(bytes)});
    let mut buf = bytes.to_vec();
    if which == "secp" {
        let res = guard(|| enr::CombinedKey::secp256k1_from_bytes(&mut buf));
        let want = bytes.len() == 32 && sig::secp_secret_valid(&u256::from_slice(bytes));
        match res {
            Err(p) => ctx.violate("C03", "panic", "secp256k1_from_bytes", || p.clone(), replay),
            Ok(Err(_)) => {
                if want {
                    ctx.violate("C17", "valid-secret-rejected", "secp256k1", || hex(bytes), replay);
                }
            }
            Ok(Ok(k)) => {
                if bytes.len() == 32 && !want {
                    ctx.violate("C17", "invalid-secret-accepted", "secp256k1", || hex(bytes), replay);
                } else if bytes.len() == 32 {
                    let s32 = u256::from_slice(bytes);
                    if Some(k.public().encode()) != sig::secp_pub(&s32).map(|p| p.to_vec()) {
                        ctx.violate("C17", "public-key-differs-from-independent-derivation", "secp256k1", || hex(bytes), replay);
                    }
                    if k.encode() != bytes {
                        ctx.violate("C17", "export-differs-from-import", "secp256k1", || hex(&k.encode()), replay);
                    }
                    if buf.iter().any(|&b| b != 0) {
                        ctx.violate("C17", "caller-buffer-not-wiped", "secp256k1", || hex(&buf), replay);
                    }
                }
            }
        }
    } else {
        let res = guard(|| enr::CombinedKey::ed25519_from_bytes(&mut buf));
        match res {
            Err(p) => ctx.violate("C03", "panic", "ed25519_from_bytes", || p.clone(), replay),
            Ok(Err(_)) => {
                if bytes.len() == 32 {
                    ctx.violate("C17", "valid-secret-rejected", "ed25519", || hex(bytes), replay);
                }
            }
            Ok(Ok(k)) => {
                if bytes.len() != 32 {
                    ctx.violate("C17", "wrong-length-secret-accepted", "ed25519", || format!("{} bytes", bytes.len()), replay);
                } else {
                    let s32 = u256::from_slice(bytes);
                    if k.public().encode() != sig::ed_pub(&s32).to_vec() {
                        ctx.violate("C17", "public-key-differs-from-independent-derivation", "ed25519", || hex(bytes), replay);
                    }
                    if k.encode() != bytes {
                        ctx.violate("C17", "export-differs-from-import", "ed25519", || hex(&k.encode()), replay);
                    }
                    if buf.iter().any(|&b| b != 0) {
                        ctx.violate("C17", "caller-buffer-not-wiped", "ed25519", || hex(&buf), replay);
                    }
                }
            }
        }
    }
}

pub fn replay_stream_seq(ctx: &mut Ctx, recs: &[Vec<u8>]) {
    let concat: Vec<u8> = recs.concat();
    let listed = crate::props::rlp_wrap_list(recs);
    for kt in dec::kts() {
        // only key types that accept every record alone are judged
        if !recs.iter().all(|r| dec::decode_kt(kt, r).res.is_ok()) {
            continue;
        }
        let replay = || json!({"kind": "stream-seq", "kt": kt.name(), "records": recs.iter().map(|x| hex(x)).collect::<Vec<_>>()});
        match decode_seq_kt(kt, &concat, recs.len()) {
            Ok(v) => {
                if v.iter().zip(recs).any(|((enc, _), r)| enc != r) {
                    ctx.violate("C13", "sequence-yields-other-records", kt.name(), || "".into(), replay);
                }
            }
            Err(e) => ctx.violate("C13", "sequence-of-valid-records-rejected", kt.name(), || e.clone(), replay),
        }
        let (res, left, _p) = dec::list_kt(kt, &listed);
        match res {
            Ok(v) if v.len() == recs.len() && left == 0 && v.iter().zip(recs).all(|(o, r)| &o.enc == r) => {}
            Ok(_) => ctx.violate("C13", "list-yields-other-records", kt.name(), || "".into(), replay),
            Err(e) => ctx.violate("C13", "list-of-valid-records-rejected", kt.name(), || e.clone(), replay),
        }
    }
}
