//! Input-level monitors: one hostile input, every key type, every decode-side oracle
//! (C01, C02, C03, C04 first clause, C09 upper bound, C10, C11).

use crate::dec::{self, DecOut};
use crate::obs::Obs;
use crate::refimpl::decode::{ref_decode, structure, RefOut, KT};
use crate::refimpl::rlp;
use crate::refimpl::sig::{self, PubValidity, Scheme};
use crate::refimpl::b64;
use crate::report::Ctx;
use crate::util::{h64, hex, panic_sig};
use serde_json::json;

pub const CPU_BOUND_NS: u64 = 20_000_000_000;

fn replay_input(class: &str, entry: &str, kt: KT, bytes: &[u8]) -> serde_json::Value {
    json!({"kind": "input", "class": class, "entry": entry, "kt": kt.name(), "hex": hex(bytes)})
}

pub fn scheme_of_entry(entry: &[u8]) -> Option<Scheme> {
    match entry {
        b"secp256k1" => Some(Scheme::Secp),
        b"ed25519" => Some(Scheme::Ed),
        b"toy" => Some(Scheme::Toy),
        _ => None,
    }
}

/// RefRLP content list [seq, k1, v1, ...] from what the record itself reports.
pub fn content_from_obs(o: &Obs) -> Vec<u8> {
    let mut p = rlp::enc_uint(o.seq);
    for (k, v) in &o.pairs {
        p.extend_from_slice(&rlp::enc_str(k));
        p.extend_from_slice(v);
    }
    rlp::enc_list_payload(&p)
}

/// The authenticity oracle of C01/C05 on an observation: Ok or the name of the failed clause.
pub fn authentic(o: &Obs) -> Result<(), &'static str> {
    let scheme = scheme_of_entry(&o.pubkey_entry).ok_or("unknown-pubkey-entry")?;
    let raw = o.get(&o.pubkey_entry).ok_or("no-pubkey-entry-in-pairs")?;
    let pk = rlp::as_str(raw).ok_or("pubkey-entry-not-a-string")?;
    if !sig::verify(scheme, pk, &content_from_obs(o), &o.sig) {
        return Err("refsig-does-not-verify");
    }
    if !o.verify {
        return Err("verify()-is-false");
    }
    Ok(())
}

pub struct Judged {
    pub outs: Vec<(KT, RefOut, DecOut)>,
}

#[derive(Default, Clone, Copy)]
pub struct JudgeOpts {
    /// also push the input through the text / JSON entry points
    pub text: bool,
}

/// Decode `bytes` under every key type of the build and run all input-level monitors.
pub fn judge_input(ctx: &mut Ctx, class: &str, bytes: &[u8], opts: JudgeOpts) -> Judged {
    let j = judge_input_inner(ctx, class, bytes, opts);
    ctx.trace_end();
    if !cfg!(miri) && !j.outs.is_empty() {
        after_input(ctx, class, bytes, &j);
    }
    j
}

/// History independence of the decoder: (1) after an input that some key type refused, the canary record is
/// decoded again and must still be accepted; (2) for inputs that some key type accepted, a second pass in the
/// REVERSE key-type order must give every key type the verdict it gave in the first pass.
fn after_input(ctx: &mut Ctx, class: &str, bytes: &[u8], j: &Judged) {
    let byte_level = matches!(class, "bit-flip" | "truncation" | "byte-deletion" | "byte-edit" | "byte-insertion" | "header-bit-flip" | "unstructured");
    ctx.canary_tick += 1;
    let any_reject = j.outs.iter().any(|o| o.2.res.is_err());
    let any_accept = j.outs.iter().any(|o| o.2.res.is_ok());
    if any_reject && !class.starts_with("valid") && !class.starts_with("probe") && (!byte_level || ctx.canary_tick % 8 == 0) {
        if let Some(c) = ctx.canary.clone() {
            if c.as_slice() != bytes {
                ctx.trace_case(|| json!({"kind": "input", "class": "canary-after", "hex": hex(&c), "after": hex(bytes)}));
                for kt in dec::kts() {
                    if !matches!(ref_decode(&c, kt), RefOut::Accept(_)) {
                        continue;
                    }
                    let o = dec::decode_kt(kt, &c);
                    ctx.count("evaluations");
                    ctx.count("canary-redecodes");
                    if o.res.is_err() {
                        for prop in ["C02", "C13"] {
                            ctx.violate(prop, "valid-record-rejected-after-another-input", &format!("after-{class}/{}", kt.name()), || {
                                format!("{}: a valid record is rejected ({:?}) right after an input of class {class} was decoded on the thread", kt.name(), o.res.as_ref().err())
                            }, || json!({"kind": "input-pair", "first": hex(bytes), "second": hex(&c), "kt": kt.name(), "class": class}));
                        }
                    }
                }
                ctx.trace_end();
            }
        }
    }
    if any_accept && (!byte_level) {
        ctx.trace_case(|| json!({"kind": "input", "class": "reverse-pass", "hex": hex(bytes)}));
        let mut kts = dec::kts();
        kts.reverse();
        for kt in kts {
            let first = match j.outs.iter().find(|o| o.0 == kt) {
                Some(f) => f.2.res.is_ok(),
                None => continue,
            };
            let o = dec::decode_kt(kt, bytes);
            ctx.count("evaluations");
            ctx.count("reverse-pass-decodes");
            if let Some(p) = &o.panic {
                ctx.violate("C03", "panic", &format!("decode/{}", panic_sig(p)), || format!("decode::<{}> panicked in the second pass: {p}", kt.name()), || replay_input(class, "decode", kt, bytes));
            }
            if (o.res.is_ok() || o.panic.is_some()) != first {
                for prop in ["C02", "C13", "C01"] {
                    ctx.violate(prop, "verdict-depends-on-what-was-decoded-before", &format!("{class}/{}", kt.name()), || {
                        format!("{}: the same bytes were {} in the first pass and {} when decoded after the other key types", kt.name(), if first { "accepted" } else { "rejected" }, if o.res.is_ok() { "accepted" } else { "rejected" })
                    }, || json!({"kind": "input", "class": class, "entry": "decode", "kt": kt.name(), "hex": hex(bytes), "note": "reverse key-type order"}));
                }
            }
        }
        ctx.trace_end();
    }
}

fn judge_input_inner(ctx: &mut Ctx, class: &str, bytes: &[u8], opts: JudgeOpts) -> Judged {
    if cfg!(miri) && ctx.expired() {
        // the interpreter is ~10^4 x slower: stop at the deadline even inside a base record's mutants
        ctx.count("deadline-skips");
        return Judged { outs: Vec::new() };
    }
    // (trace mode only) whether RefDecode is decisive for this one-item input under some key type: an abort or a
    // hang of the library while this case is open is then "no verdict" for C02 as well as a C03 event
    ctx.trace_case(|| {
        let decisive = dec::kts().iter().any(|kt| matches!(ref_decode(bytes, *kt), RefOut::Accept(_) | RefOut::Reject(_)));
        json!({"kind": "input", "class": class, "hex": hex(bytes), "c02_decisive": decisive})
    });
    let kts = dec::kts();
    let mut outs: Vec<(KT, RefOut, DecOut)> = Vec::with_capacity(kts.len());
    for &kt in &kts {
        let rd = ref_decode(bytes, kt);
        let out = dec::decode_kt(kt, bytes);
        ctx.count("evaluations");
        ctx.count(&format!("decode.{}", kt.name()));
        monitor_one(ctx, class, "decode", kt, bytes, &rd, &out);
        outs.push((kt, rd, out));
    }
    monitor_cross(ctx, class, bytes, &outs);
    if opts.text {
        let text = b64::encode(bytes);
        for &kt in &kts {
            let dec_ok = outs.iter().find(|o| o.0 == kt).map(|o| o.2.res.is_ok() && o.2.remaining == 0).unwrap_or(false);
            for (entry, s) in [("parse", format!("enr:{text}")), ("parse-noprefix", text.clone()), ("json", format!("\"enr:{text}\""))] {
                let o = if entry == "json" { dec::json_kt(kt, &s) } else { dec::parse_kt(kt, &s) };
                ctx.count("evaluations");
                ctx.count(&format!("{entry}.{}", kt.name()));
                if let Some(p) = &o.panic {
                    ctx.violate("C03", "panic", &format!("{entry}/{}", panic_sig(p)), || format!("{entry} panicked: {p}"), || {
                        json!({"kind": "text", "entry": entry, "kt": kt.name(), "text": s})
                    });
                    continue;
                }
                // C01 for texts: the text of bytes is accepted only if the bytes are an authentic record
                if let Ok(obs) = &o.res {
                    if let Err(why) = authentic(obs) {
                        ctx.violate("C01", "accepted-text-not-authentic", &format!("{class}/{}/{why}", kt.name()), || {
                            format!("{entry} accepted a text whose record fails {why}")
                        }, || json!({"kind": "text", "entry": entry, "kt": kt.name(), "text": s}));
                    }
                    if !dec_ok {
                        // text accepted although the byte form (exactly these bytes) is not accepted as one item
                        let one_item = rlp::header(bytes).map(|h| h.total() == bytes.len()).unwrap_or(false);
                        if one_item {
                            ctx.violate("C12", "text-accepts-what-bytes-reject", &format!("{class}/{}", kt.name()), || {
                                format!("{entry} accepts, decode rejects")
                            }, || json!({"kind": "text", "entry": entry, "kt": kt.name(), "text": s}));
                        }
                    }
                } else if dec_ok {
                    ctx.violate("C12", "text-rejects-what-bytes-accept", &format!("{class}/{}", kt.name()), || {
                        format!("{entry} rejects the text of an accepted record: {:?}", o.res.as_ref().err())
                    }, || json!({"kind": "text", "entry": entry, "kt": kt.name(), "text": s}));
                }
            }
        }
    }
    Judged { outs }
}

/// Run the input-level monitors on an outcome that was obtained elsewhere (another thread).
pub fn judge_outcome(ctx: &mut Ctx, class: &str, kt: KT, bytes: &[u8], out: &DecOut) {
    let rd = ref_decode(bytes, kt);
    monitor_one(ctx, class, "decode", kt, bytes, &rd, out);
}

fn monitor_one(ctx: &mut Ctx, class: &str, entry: &str, kt: KT, bytes: &[u8], rd: &RefOut, out: &DecOut) {
    let ktn = kt.name();
    // ---------------- C03
    if let Some(p) = &out.panic {
        ctx.count("panics");
        ctx.violate("C03", "panic", &format!("{entry}/{}", panic_sig(p)), || format!("{entry}::<{ktn}> panicked: {p}"), || {
            replay_input(class, entry, kt, bytes)
        });
        // C02 promises a verdict for every one-item input ("succeeds iff ...; every other input is rejected with
        // an error value"): a panic is neither, so where the reference is decisive it is a C02 event as well.
        if !matches!(rd, RefOut::NotOneItem(_)) && matches!(rd, RefOut::Accept(_) | RefOut::Reject(_)) {
            let tag = rd.tag();
            ctx.violate("C02", "panic-instead-of-verdict", &format!("{class}/{ktn}/{tag}"), || {
                format!("class {class} kt {ktn}: RefDecode={tag}, library panicked: {p}")
            }, || replay_input(class, entry, kt, bytes));
        }
        return;
    }
    if out.cpu_ns > CPU_BOUND_NS {
        ctx.violate("C03", "cpu-bound", &format!("{entry}/{ktn}"), || format!("{} ns of CPU", out.cpu_ns), || {
            replay_input(class, entry, kt, bytes)
        });
    }
    let tag = rd.tag();
    let one_item = !matches!(rd, RefOut::NotOneItem(_));
    let outcome = if out.res.is_ok() { "accept" } else { "reject" };
    ctx.count(&format!("cls.{class}.{ktn}.{outcome}"));
    ctx.count(&format!("ref.{tag}.{ktn}.{outcome}"));
    // distinct / non-trivial by property
    let decisive = matches!(rd, RefOut::Accept(_) | RefOut::Reject(_));
    let nontrivial = match ctx.prop.as_str() {
        "C01" => matches!(rd, RefOut::Accept(_) | RefOut::Reject("signature")),
        "C02" => decisive && one_item,
        "C03" => rlp::header(bytes).is_ok(),
        "C04" | "C10" | "C09" => out.res.is_ok(),
        _ => true,
    };
    if nontrivial {
        ctx.distinct(h64(&[ktn.as_bytes(), bytes]));
    }
    if matches!(rd, RefOut::Unspec(_)) {
        ctx.count("unspecified-region");
    }
    // sampled for the offline second opinion: a couple of inputs per (class, key type, outcome)
    if !cfg!(miri) {
        let bucket = format!("dec/{class}/{ktn}/{outcome}");
        ctx.pytrace(&bucket, 1, || {
            let mut v = json!({"t": "dec", "kt": ktn, "class": class, "input": hex(bytes), "lib": outcome, "ref": tag,
                "ref_class": match rd { RefOut::Accept(_) => "accept", RefOut::Reject(_) => "reject", RefOut::Unspec(_) => "open", RefOut::NotOneItem(_) => "not-one-item" },
                "remaining": out.remaining});
            if let Ok(o) = &out.res {
                v["seq"] = json!(o.seq.to_string());
                v["node_id"] = json!(hex(&o.node_id));
                v["pubkey"] = json!(hex(&o.pubkey));
                v["sig"] = json!(hex(&o.sig));
                v["text"] = json!(o.text);
            }
            v
        });
    }

    // ---------------- C02: accept <=> RefDecode accepts (one-item inputs, decisive only)
    if one_item && decisive {
        let want = matches!(rd, RefOut::Accept(_));
        if out.res.is_ok() != want {
            let rule = if want { "lib-rejects-ref-accepts" } else { "lib-accepts-ref-rejects" };
            ctx.violate("C02", rule, &format!("{class}/{ktn}/{tag}"), || {
                format!("class {class} kt {ktn}: RefDecode={tag}, library={:?}", out.res.as_ref().map(|_| "Ok").map_err(|e| e.clone()))
            }, || replay_input(class, entry, kt, bytes));
        }
    }

    let obs = match &out.res {
        Ok(o) => o,
        Err(_) => return,
    };
    let consumed = bytes.len() - out.remaining;
    ctx.count("accepted");
    ctx.count(&format!("accepted.{ktn}"));

    // ---------------- C01: authenticity of everything accepted
    if let Err(why) = authentic(obs) {
        ctx.violate("C01", "accepted-not-authentic", &format!("{class}/{ktn}/{why}"), || {
            format!("class {class} kt {ktn}: accepted record fails {why}")
        }, || replay_input(class, entry, kt, bytes));
    }
    // reported fields == independent parse of the consumed bytes
    match structure(&bytes[..consumed.min(bytes.len())]) {
        Some((sg, seq, pairs)) => {
            if sg != obs.sig || seq != obs.seq || pairs != obs.pairs {
                ctx.violate("C01", "reported-fields-differ-from-input", &format!("{class}/{ktn}"), || {
                    format!("seq {} vs {}, sig equal {}, pairs equal {}", obs.seq, seq, sg == obs.sig, pairs == obs.pairs)
                }, || replay_input(class, entry, kt, bytes));
                ctx.violate("C04", "reported-fields-differ-from-input", &format!("{class}/{ktn}"), || {
                    "decoded record reports other fields than an independent parse".to_string()
                }, || replay_input(class, entry, kt, bytes));
            }
        }
        None => {
            ctx.violate("C01", "accepted-unparseable-structure", &format!("{class}/{ktn}"), || {
                "accepted an input RefRLP cannot parse as [sig, seq, (k,v)*]".to_string()
            }, || replay_input(class, entry, kt, bytes));
        }
    }
    // ---------------- C04 first clause: re-encoding reproduces the consumed bytes
    if obs.enc != bytes[..consumed.min(bytes.len())] {
        ctx.violate("C04", "reencode-differs-from-input", &format!("{class}/{ktn}"), || {
            format!("encode(decode(x)) = {} for x = {}", hex(&obs.enc), hex(&bytes[..consumed.min(bytes.len())]))
        }, || replay_input(class, entry, kt, bytes));
    }
    if let RefOut::Accept(f) = rd {
        if f.seq != obs.seq || f.sig != obs.sig || f.pairs != obs.pairs || f.pubkey != obs.pubkey || f.node_id != obs.node_id {
            ctx.violate("C04", "fields-differ-from-refdecode", &format!("{class}/{ktn}"), || {
                format!("seq {}/{} pubkey {}/{} node {}/{}", f.seq, obs.seq, hex(&f.pubkey), hex(&obs.pubkey), hex(&f.node_id), hex(&obs.node_id))
            }, || replay_input(class, entry, kt, bytes));
        }
    }
    // ---------------- C09 upper bound and size()
    if obs.enc.len() > 300 {
        ctx.violate("C09", "decoded-record-exceeds-300", &format!("{class}/{ktn}"), || format!("{} bytes", obs.enc.len()), || {
            replay_input(class, entry, kt, bytes)
        });
    }
    if obs.size != obs.enc.len() {
        ctx.violate("C09", "size()-differs-from-encoding", &format!("decode/{ktn}"), || format!("size() {} len {}", obs.size, obs.enc.len()), || {
            replay_input(class, entry, kt, bytes)
        });
    }
    // ---------------- C10: node id from the raw stored key
    check_node_id(ctx, obs, &format!("decode/{ktn}"), || replay_input(class, entry, kt, bytes));
}

/// C10 oracle on one observation.
pub fn check_node_id(ctx: &mut Ctx, obs: &Obs, site: &str, replay: impl Fn() -> serde_json::Value) {
    ctx.count("c10.evals");
    let scheme = match scheme_of_entry(&obs.pubkey_entry) {
        Some(s) => s,
        None => return,
    };
    let stored = obs.get(&obs.pubkey_entry).and_then(rlp::as_str);
    let want = stored.and_then(|pk| sig::node_id(scheme, pk));
    match want {
        Some(w) => {
            if w != obs.node_id {
                ctx.violate("C10", "node-id-not-hash-of-stored-key", site, || {
                    format!("node_id {} expected {}", hex(&obs.node_id), hex(&w))
                }, &replay);
            }
        }
        None => {
            ctx.violate("C10", "stored-key-underivable", site, || "record carries no derivable public key".into(), &replay);
        }
    }
    // the uncompressed form the accessor hands out is the x||y (or the 32-byte key) the id is the hash of
    if let Some(pk) = stored {
        let want_unc: Option<Vec<u8>> = match scheme {
            Scheme::Secp => sig::secp_normalise(pk).map(|(_, u)| u.to_vec()),
            _ => Some(pk.to_vec()),
        };
        if let Some(w) = want_unc {
            if w != obs.pubkey_uncompressed {
                ctx.violate("C10", "uncompressed-public-key-differs", site, || format!("encode_uncompressed() = {}", hex(&obs.pubkey_uncompressed)), &replay);
            }
        }
    }
    if obs.node_id_from_pub != obs.node_id {
        ctx.violate("C10", "node-id-differs-from-public-key-accessor", site, || {
            format!("node_id {} from accessor {}", hex(&obs.node_id), hex(&obs.node_id_from_pub))
        }, &replay);
    }
}

/// C11: back-ends interchangeable, schemes isolated.
fn monitor_cross(ctx: &mut Ctx, class: &str, bytes: &[u8], outs: &[(KT, RefOut, DecOut)]) {
    let get = |kt: KT| outs.iter().find(|o| o.0 == kt);
    if outs.iter().any(|o| o.2.panic.is_some()) {
        return;
    }
    // what the secp256k1 / ed25519 entries look like, by RefRLP
    let st = structure_lenient(bytes);
    let (secp_entry, ed_entry) = match &st {
        Some(p) => (p.iter().find(|(k, _)| k == b"secp256k1").map(|x| x.1.clone()), p.iter().find(|(k, _)| k == b"ed25519").map(|x| x.1.clone())),
        None => (None, None),
    };
    let secp_validity = secp_entry.as_deref().and_then(rlp::as_str).map(sig::secp_pub_validity);
    if matches!(secp_validity, Some(PubValidity::Unspec)) {
        ctx.count("c11.skipped-65-byte-key");
        return;
    }
    let secp_valid = matches!(secp_validity, Some(PubValidity::Valid(_)));
    let same = |a: &DecOut, b: &DecOut| -> Result<(), String> {
        match (&a.res, &b.res) {
            (Ok(x), Ok(y)) => {
                if a.remaining != b.remaining {
                    return Err("remaining differs".into());
                }
                if x.seq != y.seq || x.pairs != y.pairs || x.sig != y.sig || x.pubkey != y.pubkey || x.node_id != y.node_id || x.enc != y.enc {
                    return Err("reported fields differ".into());
                }
                Ok(())
            }
            (Err(_), Err(_)) => Ok(()),
            (Ok(_), Err(e)) => Err(format!("first accepts, second rejects ({e})")),
            (Err(e), Ok(_)) => Err(format!("first rejects ({e}), second accepts")),
        }
    };
    let mut groups: Vec<(KT, KT)> = Vec::new();
    if get(KT::Libsecp).is_some() {
        groups.push((KT::K256, KT::Libsecp));
    }
    if secp_valid {
        groups.push((KT::K256, KT::Comb));
        if get(KT::Libsecp).is_some() {
            groups.push((KT::Libsecp, KT::Comb));
        }
    } else {
        groups.push((KT::Ed, KT::Comb));
    }
    let any_accept = outs.iter().any(|o| o.2.res.is_ok() || matches!(o.1, RefOut::Accept(_)));
    if any_accept && ctx.prop == "C11" {
        ctx.distinct(h64(&[b"c11", bytes]));
    }
    for (a, b) in groups {
        if let (Some(x), Some(y)) = (get(a), get(b)) {
            ctx.count("c11.comparisons");
            if x.2.res.is_ok() || y.2.res.is_ok() {
                ctx.count(&format!("c11.compared-accepting.{}-{}", a.name(), b.name()));
            }
            if let Err(why) = same(&x.2, &y.2) {
                let w = why.split(" (").next().unwrap_or("").to_string();
                ctx.violate("C11", "backends-disagree", &format!("{class}/{}-vs-{}/{w}", a.name(), b.name()), || {
                    format!("{} vs {}: {why}", a.name(), b.name())
                }, || json!({"kind": "input", "class": class, "entry": "decode", "kt": a.name(), "kt2": b.name(), "hex": hex(bytes)}));
            }
        }
    }
    // scheme isolation
    if st.is_some() {
        if secp_entry.is_none() {
            for kt in [KT::K256, KT::Libsecp] {
                if let Some(x) = get(kt) {
                    ctx.count("c11.isolation-checks");
                    if x.2.res.is_ok() {
                        ctx.violate("C11", "single-scheme-type-accepts-record-without-its-key", &format!("{class}/{}", kt.name()), || {
                            "accepted a record with no secp256k1 entry".into()
                        }, || replay_input(class, "decode", kt, bytes));
                    }
                }
            }
        }
        if ed_entry.is_none() {
            if let Some(x) = get(KT::Ed) {
                ctx.count("c11.isolation-checks");
                if x.2.res.is_ok() {
                    ctx.violate("C11", "single-scheme-type-accepts-record-without-its-key", &format!("{class}/ed25519"), || {
                        "accepted a record with no ed25519 entry".into()
                    }, || replay_input(class, "decode", KT::Ed, bytes));
                }
            }
        }
        // CombinedKey verifies against the secp256k1 entry whenever it is a valid key
        if secp_valid {
            if let Some(x) = get(KT::Comb) {
                if let Ok(o) = &x.2.res {
                    ctx.count("c11.precedence-checks");
                    if o.pubkey_entry != b"secp256k1" {
                        ctx.violate("C11", "combined-ignores-valid-secp256k1-entry", class, || {
                            format!("CombinedKey used entry {:?}", String::from_utf8_lossy(&o.pubkey_entry))
                        }, || replay_input(class, "decode", KT::Comb, bytes));
                    }
                }
            }
        }
    }
}

/// (key, raw value) pairs of the first item if it frames as list[str, any, (str, any)*]; lenient on typing.
fn structure_lenient(input: &[u8]) -> Option<Vec<(Vec<u8>, Vec<u8>)>> {
    let h = rlp::header(input).ok()?;
    if !h.list {
        return None;
    }
    let fr = rlp::frames(&input[h.off..h.total()]).ok()?;
    if fr.len() < 2 {
        return None;
    }
    let mut pairs = Vec::new();
    for kv in fr[2..].chunks(2) {
        if kv.len() < 2 || kv[0].0.list {
            return None;
        }
        pairs.push((kv[0].1[kv[0].0.off..].to_vec(), kv[1].1.to_vec()));
    }
    Some(pairs)
}
