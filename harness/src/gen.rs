//! W-DEC generators: reference-built valid records (signed by RefSig, never by `enr`), structural
//! mutants RE-SIGNED over the malformed content, byte-level alterations, field-level tampers and
//! unstructured inputs (DESIGN.md §5).

use crate::keys::secret_from;
use crate::refimpl::rlp::{self, Item};
use crate::refimpl::sig::{self, RefKey, Scheme};
use crate::refimpl::u256;
use crate::util::{below, pick, rand_bytes};
use rand::RngCore;
use std::collections::BTreeMap;

pub const SEQ_EDGES: [u64; 14] = [
    0, 1, 127, 128, 255, 256, 65_535, 65_536, 0xffff_ffff, 0x1_0000_0000, u64::MAX - 1, u64::MAX, 2, 0x7fff_ffff_ffff_ffff,
];
pub const PORT_EDGES: [u16; 9] = [0, 1, 127, 128, 255, 256, 30303, 65_534, 65_535];

/// A record under construction: content map (sorted) + seq + signer.
#[derive(Clone, Debug)]
pub struct Rec {
    pub key: RefKey,
    pub seq: u64,
    pub map: BTreeMap<Vec<u8>, Item>,
}

impl Rec {
    pub fn minimal(key: RefKey, seq: u64) -> Self {
        let mut map = BTreeMap::new();
        map.insert(b"id".to_vec(), Item::S(b"v4".to_vec()));
        map.insert(key.scheme.enr_key().to_vec(), Item::S(key.pub_bytes()));
        Self { key, seq, map }
    }
    /// content items: [seq, k1, v1, ...]
    pub fn items(&self) -> Vec<Item> {
        let mut v = vec![Item::S(rlp::uint_bytes(self.seq))];
        for (k, val) in &self.map {
            v.push(Item::S(k.clone()));
            v.push(val.clone());
        }
        v
    }
    pub fn bytes(&self) -> Vec<u8> {
        let it = self.items();
        assemble(&self.key, &it, &it)
    }
    pub fn size(&self) -> usize {
        // signature length differs for toy; compute exactly
        self.bytes().len()
    }
}

/// record = list[ sig(signed_items), verbatim_items... ]
pub fn assemble(key: &RefKey, verbatim: &[Item], signed: &[Item]) -> Vec<u8> {
    let content = rlp::enc_list_payload(&rlp::enc_items(signed));
    let sig = key.sign(&content);
    assemble_with_sig(&sig, verbatim)
}

pub fn assemble_with_sig(sig: &[u8], verbatim: &[Item]) -> Vec<u8> {
    let mut p = rlp::enc_str(sig);
    p.extend_from_slice(&rlp::enc_items(verbatim));
    rlp::enc_list_payload(&p)
}

pub fn content_of(items: &[Item]) -> Vec<u8> {
    rlp::enc_list_payload(&rlp::enc_items(items))
}

/// `client` values of every list shape: a LIST where a byte string belongs (3rd, 1st, 2nd place), four entries, an
/// empty list, empty strings, one-byte strings around 0x80, a 56-byte entry (long-form header inside the list)
pub fn client_shapes() -> Vec<Item> {
    let sv = |x: &[u8]| Item::S(x.to_vec());
    vec![
        Item::L(vec![sv(b"geth"), sv(b"1.14.0"), Item::L(vec![sv(b"linux"), sv(b"amd64")])]),
        Item::L(vec![sv(b"geth"), sv(b"1.14.0"), Item::L(vec![])]),
        Item::L(vec![Item::L(vec![sv(b"geth")]), sv(b"1.14.0"), sv(b"x")]),
        Item::L(vec![sv(b"geth"), Item::L(vec![]), sv(b"x")]),
        Item::L(vec![sv(b"geth"), Item::L(vec![sv(b"1")])]),
        Item::L(vec![Item::L(vec![]), Item::L(vec![])]),
        Item::L(vec![sv(b"a"), sv(b"b"), sv(b"c"), sv(b"d")]),
        Item::L(vec![sv(b"a"), sv(b"b"), sv(b"c"), Item::L(vec![])]),
        Item::L(vec![]),
        Item::L(vec![sv(b"only")]),
        Item::L(vec![sv(b""), sv(b""), sv(b"")]),
        Item::L(vec![sv(b"g"), sv(&[0x7f]), sv(&[0x80])]),
        Item::L(vec![sv(&[b'n'; 56]), sv(b"v"), Item::L(vec![])]),
        Item::L(vec![sv(&[b'n'; 56]), sv(b"v"), sv(&[b'b'; 60])]),
    ]
}

/// Keys used by the generators; a few per scheme, including edge scalars.
pub fn key_pool(scheme: Scheme, seed: u64) -> Vec<RefKey> {
    let mut v = Vec::new();
    for i in 0..4u64 {
        v.push(RefKey::new(scheme, secret_from(scheme, seed.wrapping_mul(31).wrapping_add(i))));
    }
    if scheme == Scheme::Secp {
        let mut one = [0u8; 32];
        one[31] = 1;
        let mut two = [0u8; 32];
        two[31] = 2;
        let nm1 = u256::sub(&u256::N, &one);
        v.push(RefKey::new(scheme, one));
        v.push(RefKey::new(scheme, two));
        v.push(RefKey::new(scheme, nm1));
        // keys whose x / y coordinate has a leading zero byte, or a trailing zero byte
        let mut want: Vec<fn(&[u8; 33], &[u8; 64]) -> bool> = vec![|c, _| c[1] == 0, |_, u| u[32] == 0, |_, u| u[31] == 0 || u[63] == 0];
        for i in 0..6000u64 {
            if want.is_empty() {
                break;
            }
            let s = secret_from(scheme, 0xabcdef00 + i);
            if let Some(c) = sig::secp_pub(&s) {
                if let Some((_, u)) = sig::secp_normalise(&c) {
                    if let Some(pos) = want.iter().position(|f| f(&c, &u)) {
                        want.remove(pos);
                        v.push(RefKey::new(scheme, s));
                    }
                }
            }
        }
    } else {
        v.push(RefKey::new(scheme, [0u8; 32]));
        v.push(RefKey::new(scheme, [0xff; 32]));
    }
    if scheme == Scheme::Toy {
        // a key of the custom scheme whose signatures are 1..8 bytes: valid records far smaller than any built-in one
        v.push(RefKey::new(scheme, secret_from(scheme, crate::keys::SHORT_TOY_LABEL | (seed & 0xff))));
    }
    v
}

pub fn custom_key(r: &mut impl RngCore) -> Vec<u8> {
    // neighbours of the reserved keys, byte-value corners, and the keys other ENR users define (consensus and
    // execution clients, discv5, libp2p): a library that special-cases one of them without being asked to shows here
    const KS: [&[u8]; 44] = [
        b"a", b"eth2", b"attnets", b"client", b"i", b"ic", b"ie", b"ip5", b"ip7", b"ipp", b"secp256k0",
        b"secp256k2", b"tcp5", b"tcp7", b"udp5", b"udp7", b"z", b"\x00", b"\x7f", b"\x80", b"\xff\xff", b"snap",
        b"quic", b"quic6", b"eth", b"les", b"syncnets", b"csc", b"cgc", b"nfd", b"opstack", b"bzz", b"rlpx", b"v4", b"v5",
        b"ip4", b"tcp4", b"udp4", b"port", b"pubkey", b"sig", b"seq", b"enr", b"multiaddr",
    ];
    match below(r, 10) {
        0 => {
            let n = 1 + below(r, 6) as usize;
            rand_bytes(r, n)
        }
        1 => Vec::new(),
        _ => pick(r, &KS).to_vec(),
    }
}

pub fn custom_value(r: &mut impl RngCore, max: usize) -> Item {
    let max = max.max(1);
    match below(r, 12) {
        0 => Item::S(vec![below(r, 0x80) as u8]),
        1 => Item::S(vec![0x80 + below(r, 0x80) as u8]),
        2 => Item::S(Vec::new()),
        3 => {
            let n = 2 + below(r, 30.min(max as u64)) as usize;
            Item::S(rand_bytes(r, n))
        }
        4 => {
            let n = 56.min(max) + below(r, 10) as usize;
            Item::S(rand_bytes(r, n))
        }
        5 => Item::L(Vec::new()),
        6 => Item::L(vec![Item::S(b"Nimbus".to_vec()), Item::S(b"v1.2.3".to_vec())]),
        7 => Item::L(vec![Item::L(vec![Item::S(vec![1, 2, 3]), Item::L(vec![])]), Item::S(vec![0x7f])]),
        8 => Item::S(rlp::uint_bytes(r.next_u64() >> below(r, 64))),
        9 => {
            let n = below(r, 20) as usize;
            Item::L(vec![Item::S(rand_bytes(r, n)), Item::S(vec![]), Item::S(vec![0])])
        }
        10 => {
            // lengths where the RLP header form changes
            let n = [54usize, 55, 56, 57, 0, 1][below(r, 6) as usize].min(max.max(1) + 2);
            Item::S(vec![0x5a; n])
        }
        _ => {
            let n = below(r, max.min(120) as u64) as usize;
            Item::S(rand_bytes(r, n))
        }
    }
}

/// A random valid record of the given scheme. Always <= 300 bytes.
pub fn random_valid(r: &mut impl RngCore, keys: &[RefKey]) -> Rec {
    let key = *pick(r, keys);
    let seq = if below(r, 2) == 0 { *pick(r, &SEQ_EDGES) } else { r.next_u64() >> below(r, 64) };
    let mut rec = Rec::minimal(key, seq);
    let port = |r: &mut dyn RngCore| -> Item {
        let p = if r.next_u32() % 2 == 0 { PORT_EDGES[(r.next_u32() % 9) as usize] } else { r.next_u32() as u16 };
        Item::S(rlp::uint_bytes(p as u64))
    };
    if below(r, 2) == 0 {
        rec.map.insert(b"ip".to_vec(), Item::S(rand_bytes(r, 4)));
    }
    if below(r, 3) == 0 {
        rec.map.insert(b"ip6".to_vec(), Item::S(rand_bytes(r, 16)));
    }
    for k in [&b"tcp"[..], b"tcp6", b"udp", b"udp6"] {
        if below(r, 3) == 0 {
            let p = port(r);
            rec.map.insert(k.to_vec(), p);
        }
    }
    let ncustom = below(r, 4);
    for _ in 0..ncustom {
        let k = custom_key(r);
        if k == b"id" || k == key.scheme.enr_key() || k == b"secp256k1" || k == b"ed25519" || k == b"toy" {
            continue;
        }
        let v = custom_value(r, 60);
        let old = rec.map.insert(k.clone(), v);
        if rec.size() > 300 {
            match old {
                Some(o) => rec.map.insert(k, o),
                None => rec.map.remove(&k),
            };
        }
    }
    rec
}

/// Tune a padding value under `key` so that the record encodes to exactly `target` bytes, if possible.
pub fn pad_to(rec: &Rec, key: &[u8], target: usize) -> Option<Rec> {
    let with = |len: usize| {
        let mut r2 = rec.clone();
        r2.map.insert(key.to_vec(), Item::S(vec![0xa5; len]));
        r2
    };
    let s0 = with(0).size();
    if s0 > target {
        return None;
    }
    if s0 == target {
        return Some(with(0));
    }
    // the size grows by one per padding byte except where a length header grows (and, for the toy
    // scheme, where the signature length changes): probe around the linear guess
    let guess = target - s0;
    let mut cands: Vec<usize> = (guess.saturating_sub(6)..=guess + 2).collect();
    if rec.key.scheme == Scheme::Toy {
        cands = (guess.saturating_sub(60)..=guess + 60).collect();
    }
    for len in cands {
        let r2 = with(len);
        if r2.size() == target {
            return Some(r2);
        }
    }
    None
}

// ---------------------------------------------------------------------------------------------
// structural mutants, re-signed
// ---------------------------------------------------------------------------------------------

fn noncanon_long(payload: &[u8], list: bool) -> Vec<u8> {
    // long form although len < 56
    let mut v = vec![if list { 0xf8 } else { 0xb8 }, payload.len() as u8];
    v.extend_from_slice(payload);
    v
}
fn leadzero_long(payload: &[u8], list: bool) -> Vec<u8> {
    let mut v = vec![if list { 0xf9 } else { 0xb9 }, 0x00, payload.len() as u8];
    v.extend_from_slice(payload);
    v
}

/// All structural mutants of a valid record; each is (class, bytes).
pub fn structural_mutants(rec: &Rec, r: &mut impl RngCore) -> Vec<(&'static str, Vec<u8>)> {
    let mut out: Vec<(&'static str, Vec<u8>)> = Vec::new();
    let key = &rec.key;
    let items = rec.items();
    let npairs = (items.len() - 1) / 2;
    let pair = |i: usize| (1 + 2 * i, 2 + 2 * i);
    fn both_impl(out: &mut Vec<(&'static str, Vec<u8>)>, key: &RefKey, class: &'static str, verbatim: Vec<Item>, canonical: Vec<Item>) {
        out.push((class, assemble(key, &verbatim, &verbatim)));
        if canonical != verbatim {
            out.push((class, assemble(key, &verbatim, &canonical)));
        }
    }
    macro_rules! both {
        ($c:expr, $v:expr, $k:expr) => {{
            let (vv, kk) = ($v, $k);
            both_impl(&mut out, key, $c, vv, kk)
        }};
    }

    // 1. unsorted: swap two adjacent pairs
    if npairs >= 2 {
        let i = below(r, (npairs - 1) as u64) as usize;
        let mut v = items.clone();
        v.swap(pair(i).0, pair(i + 1).0);
        v.swap(pair(i).1, pair(i + 1).1);
        both!("unsorted", v, items.clone());
        // move last pair to front
        let mut v = items.clone();
        let lv = v.pop().unwrap();
        let lk = v.pop().unwrap();
        v.insert(1, lv);
        v.insert(1, lk);
        both!("unsorted", v, items.clone());
    }
    // 2. duplicate key
    {
        let i = below(r, npairs as u64) as usize;
        let (k, vv) = (items[pair(i).0].clone(), items[pair(i).1].clone());
        let mut v = items.clone();
        v.insert(pair(i).1 + 1, vv.clone());
        v.insert(pair(i).1 + 1, k.clone());
        both!("duplicate-key", v, items.clone());
        // duplicate with a different (custom) value in a custom key
        let mut rec2 = rec.clone();
        rec2.map.insert(b"dup".to_vec(), Item::S(vec![1]));
        let it2 = rec2.items();
        let pos = it2.iter().position(|x| *x == Item::S(b"dup".to_vec())).unwrap();
        let mut v = it2.clone();
        v.insert(pos + 2, Item::S(vec![2]));
        v.insert(pos + 2, Item::S(b"dup".to_vec()));
        let mut last_wins = it2.clone();
        last_wins[pos + 1] = Item::S(vec![2]);
        out.push(("duplicate-key", assemble(key, &v, &v)));
        out.push(("duplicate-key", assemble(key, &v, &it2)));
        out.push(("duplicate-key", assemble(key, &v, &last_wins)));
    }
    // 3. missing value
    {
        let mut v = items.clone();
        v.pop();
        both!("missing-value", v.clone(), v.clone());
        // sign over the content with the dangling key removed as well
        let mut c = v.clone();
        c.pop();
        out.push(("missing-value", assemble(key, &v, &c)));
        if npairs >= 2 {
            let i = below(r, (npairs - 1) as u64) as usize;
            let mut v = items.clone();
            v.remove(pair(i).1);
            both!("missing-value", v.clone(), v);
        }
    }
    // 4. id
    {
        let idpos = items.iter().position(|x| *x == Item::S(b"id".to_vec())).unwrap();
        let mut v = items.clone();
        v.remove(idpos);
        v.remove(idpos);
        both!("missing-id", v.clone(), v);
        for (cls, alt) in [
            ("other-id", Item::S(b"v5".to_vec())),
            ("other-id", Item::S(b"V4".to_vec())),
            ("other-id", Item::S(Vec::new())),
            ("other-id", Item::S(b"v4\x00".to_vec())),
            ("other-id", Item::S(vec![0xff, 0xfe])),
            ("other-id", Item::S(vec![b'v', 0x80])),
            ("id-as-list", Item::L(vec![Item::S(b"v4".to_vec())])),
            ("id-as-list", Item::L(vec![])),
        ] {
            let mut v = items.clone();
            v[idpos + 1] = alt;
            both!(cls, v.clone(), v);
        }
        // non-canonical framing of "v4"
        let mut v = items.clone();
        v[idpos + 1] = Item::R(noncanon_long(b"v4", false));
        both!("noncanonical-length", v, items.clone());
    }
    // 5. public key
    {
        let pk = key.scheme.enr_key().to_vec();
        let pkpos = items.iter().position(|x| *x == Item::S(pk.clone())).unwrap();
        let mut v = items.clone();
        v.remove(pkpos);
        v.remove(pkpos);
        both!("missing-pubkey", v.clone(), v);
        let good = key.pub_bytes();
        let mut alts: Vec<(&'static str, Item)> = vec![
            ("pubkey-as-list", Item::L(vec![Item::S(good.clone())])),
            ("pubkey-wrong-length", Item::S(Vec::new())),
            ("pubkey-wrong-length", Item::S(good[..good.len() - 1].to_vec())),
            ("pubkey-wrong-length", Item::S([good.clone(), vec![0]].concat())),
            ("pubkey-wrong-length", Item::S(vec![0x11; 64])),
        ];
        if key.scheme == Scheme::Secp {
            for tag in [0u8, 1, 4, 5, 6, 7, 0x82, 0xff] {
                let mut b = good.clone();
                b[0] = tag;
                alts.push(("pubkey-wrong-tag", Item::S(b)));
            }
            let mut b = vec![2u8];
            b.extend_from_slice(&u256::P);
            alts.push(("pubkey-x-ge-p", Item::S(b)));
            let mut b = vec![3u8];
            b.extend_from_slice(&[0xff; 32]);
            alts.push(("pubkey-x-ge-p", Item::S(b)));
            // x not on curve: x = 5 has no y on secp256k1 (x^3+7 = 132 is a non-residue) — verified by RefPub at run time
            for x in [5u8, 0, 7, 10] {
                let mut b = vec![2u8; 33];
                b[1..].iter_mut().for_each(|v| *v = 0);
                b[32] = x;
                alts.push(("pubkey-maybe-off-curve", Item::S(b)));
            }
            // 65-byte uncompressed form of the right key (open region)
            if let sig::PubValidity::Valid(u) = sig::secp_pub_validity(&good) {
                let mut b = vec![4u8];
                b.extend_from_slice(&u);
                alts.push(("pubkey-sec1-65", Item::S(b.clone())));
                b[0] = 6 + (u[63] & 1);
                alts.push(("pubkey-sec1-65", Item::S(b)));
            }
        } else {
            alts.push(("pubkey-wrong-length", Item::S(vec![0x22; 33])));
        }
        for (cls, alt) in alts {
            let mut v = items.clone();
            v[pkpos + 1] = alt;
            both!(cls, v.clone(), v);
        }
        let mut v = items.clone();
        v[pkpos + 1] = Item::R(leadzero_long(&good, false));
        both!("noncanonical-length", v, items.clone());
    }
    // 6. ill-typed reserved values (inserted into the record, re-signed)
    {
        let cases: Vec<(&'static str, &[u8], Item)> = vec![
            ("ip-length", b"ip", Item::S(vec![1, 2, 3])),
            ("ip-length", b"ip", Item::S(vec![1, 2, 3, 4, 5])),
            ("ip-length", b"ip", Item::S(vec![])),
            ("ip-as-list", b"ip", Item::L(vec![Item::S(vec![1, 2, 3, 4])])),
            ("ip6-length", b"ip6", Item::S(vec![9; 15])),
            ("ip6-length", b"ip6", Item::S(vec![9; 17])),
            ("ip6-length", b"ip6", Item::S(vec![9; 4])),
            ("ip6-as-list", b"ip6", Item::L(vec![])),
            ("port-too-long", b"tcp", Item::S(vec![1, 0, 0])),
            ("port-too-long", b"udp6", Item::S(vec![1, 2, 3, 4])),
            // longer than two bytes but CONGRUENT to a port modulo 65536 (a parser that truncates reads that port;
            // the second signing is over the record with that port)
            ("port-too-long-congruent", b"udp", Item::S(vec![0x01, 0x76, 0x5f])),
            ("port-too-long-congruent", b"tcp", Item::S(vec![1, 0, 0, 0, 0, 0, 0x1f, 0x90])),
            ("port-too-long-congruent", b"tcp6", Item::S(vec![0xff, 0x00, 0x50])),
            ("port-too-long-congruent", b"udp6", Item::S(vec![1, 0, 0])),
            ("port-leading-zero", b"udp", Item::S(vec![0, 80])),
            ("port-leading-zero", b"tcp6", Item::S(vec![0])),
            ("port-leading-zero", b"tcp", Item::S(vec![0, 0])),
            ("port-as-list", b"udp6", Item::L(vec![Item::S(vec![80])])),
            ("port-noncanonical", b"udp", Item::R(vec![0x81, 0x05])),
            ("port-noncanonical", b"tcp", Item::R(noncanon_long(&[0x1f, 0x90], false))),
        ];
        for (cls, k, val) in cases {
            let mut r2 = rec.clone();
            r2.map.insert(k.to_vec(), val.clone());
            let v = r2.items();
            // canonical reconstruction where one exists
            let mut c = r2.clone();
            let canon = match (cls, &val) {
                ("port-leading-zero", Item::S(b)) => {
                    // (plain slicing: the iterator form of this line draws a stack-use-after-scope false positive
                    // from ASan in safe std code)
                    let first = b.iter().position(|&x| x != 0).unwrap_or(b.len());
                    let nz: Vec<u8> = b[first..].to_vec();
                    Some(Item::S(nz))
                }
                ("port-too-long-congruent", Item::S(b)) => {
                    let low = &b[b.len() - 2..];
                    let first = low.iter().position(|&x| x != 0).unwrap_or(2);
                    Some(Item::S(low[first..].to_vec()))
                }
                ("port-noncanonical", Item::R(b)) if b[0] == 0x81 => Some(Item::S(vec![b[1]])),
                ("port-noncanonical", Item::R(b)) => Some(Item::S(b[2..].to_vec())),
                _ => None,
            };
            if let Some(cv) = canon {
                c.map.insert(k.to_vec(), cv);
            }
            both!(cls, v, c.items());
        }
    }
    // 7. non-canonical seq
    {
        let sb = rlp::uint_bytes(rec.seq);
        let mut alts: Vec<(&'static str, Item)> = vec![("seq-as-list", Item::L(vec![Item::S(sb.clone())]))];
        if sb.len() < 8 {
            alts.push(("seq-leading-zero", Item::S([vec![0u8], sb.clone()].concat())));
        }
        alts.push(("seq-too-long", Item::S([vec![1u8], vec![0u8; 8]].concat())));
        // overlong items whose LOW 64 bits are the signed sequence number (a parser that folds bytes without a
        // length limit reads the signed value)
        alts.push(("seq-too-long", Item::S([vec![0xaau8], rec.seq.to_be_bytes().to_vec()].concat())));
        alts.push(("seq-too-long", Item::S([vec![0x01u8; 8], rec.seq.to_be_bytes().to_vec()].concat())));
        alts.push(("seq-too-long", Item::S([vec![0u8], vec![0xffu8; 8]].concat())));
        if sb.len() == 1 && sb[0] < 0x80 {
            alts.push(("seq-noncanonical", Item::R(vec![0x81, sb[0]])));
        }
        if sb.is_empty() {
            alts.push(("seq-leading-zero", Item::R(vec![0x00])));
        }
        if !sb.is_empty() && sb.len() < 56 {
            alts.push(("seq-noncanonical", Item::R(noncanon_long(&sb, false))));
        }
        for (cls, alt) in alts {
            let mut v = items.clone();
            v[0] = alt;
            both!(cls, v, items.clone());
        }
    }
    // 8. non-canonical lengths on signature / a key / outer list; 9. list-for-string
    {
        let content = content_of(&items);
        let sg = key.sign(&content);
        let body = rlp::enc_items(&items);
        for sigitem in [noncanon_long(&sg, false), leadzero_long(&sg, false)] {
            if sg.len() < 56 || sigitem[0] == 0xb9 {
                let mut p = sigitem.clone();
                p.extend_from_slice(&body);
                out.push(("noncanonical-length", rlp::enc_list_payload(&p)));
            }
        }
        // signature as list
        let mut p = rlp::enc_list_payload(&rlp::enc_str(&sg));
        p.extend_from_slice(&body);
        out.push(("signature-as-list", rlp::enc_list_payload(&p)));
        // a one-byte key below 0x80 written with a length prefix (81 xx)
        {
            let mut r2 = rec.clone();
            r2.map.insert(b"a".to_vec(), Item::S(vec![1]));
            let it2 = r2.items();
            let pos = it2.iter().position(|x| *x == Item::S(b"a".to_vec())).unwrap();
            let mut v = it2.clone();
            v[pos] = Item::R(vec![0x81, b'a']);
            both!("noncanonical-length", v, it2);
        }
        // key as list / key non-canonical
        let i = below(r, npairs as u64) as usize;
        if let Item::S(kb) = &items[pair(i).0] {
            let mut v = items.clone();
            v[pair(i).0] = Item::L(vec![Item::S(kb.clone())]);
            both!("key-as-list", v.clone(), v);
            let mut v = items.clone();
            v[pair(i).0] = Item::R(noncanon_long(kb, false));
            both!("noncanonical-length", v, items.clone());
        }
        // outer header: non-canonical forms and wrong kinds
        let good = rec.bytes();
        let h = rlp::header(&good).unwrap();
        let payload = &good[h.off..];
        if payload.len() < 256 {
            let mut v = vec![0xf9, 0x00, payload.len() as u8];
            v.extend_from_slice(payload);
            out.push(("outer-noncanonical", v));
        }
        if payload.len() < 56 {
            out.push(("outer-noncanonical", noncanon_long(payload, true)));
        }
        out.push(("outer-is-string", rlp::enc_str(payload)));
        // declared length off by -3..+3
        for d in [-3i64, -2, -1, 1, 2, 3] {
            let nl = payload.len() as i64 + d;
            if nl < 0 {
                continue;
            }
            let mut v = Vec::new();
            let nl = nl as usize;
            if nl < 56 {
                v.push(0xc0 + nl as u8);
            } else {
                let lb = rlp::uint_bytes(nl as u64);
                v.push(0xf7 + lb.len() as u8);
                v.extend_from_slice(&lb);
            }
            v.extend_from_slice(payload);
            out.push((if d < 0 { "outer-length-short" } else { "outer-length-long" }, v));
        }
    }
    // 12. tiny lists
    {
        let content = content_of(&items);
        let sg = key.sign(&content);
        out.push(("tiny", vec![0xc0]));
        out.push(("tiny", rlp::enc_list_payload(&rlp::enc_str(&sg))));
        let only_seq = vec![items[0].clone()];
        out.push(("tiny", assemble(key, &only_seq, &only_seq)));
        let sig_seq_id = vec![items[0].clone(), Item::S(b"id".to_vec()), Item::S(b"v4".to_vec())];
        out.push(("tiny", assemble(key, &sig_seq_id, &sig_seq_id)));
        out.push(("tiny", vec![0x80]));
        out.push(("tiny", Vec::new()));
    }
    // 13. item overrunning the list: last value's header claims more than remains
    {
        let mut v = items.clone();
        let last = rlp::enc_item(v.last().unwrap());
        let mut bad = last.clone();
        if bad[0] >= 0x80 && bad[0] < 0xb7 {
            bad[0] += 1;
        } else if bad[0] >= 0xc0 && bad[0] < 0xf7 {
            bad[0] += 1;
        } else {
            bad = vec![0x83, 1, 2];
        }
        *v.last_mut().unwrap() = Item::R(bad);
        both!("item-overrun", v.clone(), v);
    }
    // 14. list values under unknown keys: inner well-formed / malformed
    {
        let mut r2 = rec.clone();
        r2.map.insert(b"lst".to_vec(), Item::L(vec![Item::S(vec![1]), Item::L(vec![Item::S(vec![2, 3])])]));
        if r2.size() <= 300 {
            out.push(("list-value-wellformed", r2.bytes()));
        }
        for inner in [vec![0x83u8, 1, 2], vec![0x81, 0x05], vec![0xb8, 0x01, 0x41], vec![0xc2, 0x01]] {
            let mut r3 = rec.clone();
            r3.map.insert(b"lst".to_vec(), Item::R(rlp::enc_list_payload(&inner)));
            if r3.size() <= 300 {
                out.push(("list-value-inner-malformed", r3.bytes()));
            }
        }
        // string value with non-canonical single byte / long form under an unknown key
        for raw in [vec![0x81u8, 0x05], noncanon_long(&[1, 2, 3], false), leadzero_long(&[7; 60], false)] {
            let mut r4 = rec.clone();
            r4.map.insert(b"lst".to_vec(), Item::R(raw.clone()));
            let v = r4.items();
            let mut c = r4.clone();
            let h = if raw[0] == 0x81 { 1 } else if raw[0] == 0xb8 { 2 } else { 3 };
            c.map.insert(b"lst".to_vec(), Item::S(raw[h..].to_vec()));
            both!("noncanonical-length", v, c.items());
        }
    }
    out
}

/// Every bit of the first header byte of every top-level item (and of the outer list) flipped: string <->
/// list kind flips, short <-> long form, length off by a power of two. Not re-signed (the signature does
/// not cover its own framing, and the library re-encodes before verifying).
pub fn header_flips(base: &[u8]) -> Vec<(&'static str, Vec<u8>)> {
    let mut out = Vec::new();
    let mut offsets = vec![0usize];
    if let Ok(h) = rlp::header(base) {
        if h.list {
            let mut pos = h.off;
            while pos < base.len() {
                offsets.push(pos);
                match rlp::header(&base[pos..]) {
                    Ok(ih) => pos += ih.total(),
                    Err(_) => break,
                }
            }
        }
    }
    for off in offsets {
        for bit in 0..8 {
            let mut v = base.to_vec();
            v[off] ^= 1 << bit;
            out.push(("header-bit-flip", v));
        }
    }
    out
}

/// Size sweep: records whose total encoded size is exactly 290..=310 (valid signature).
pub fn size_sweep(rec: &Rec) -> Vec<(&'static str, Vec<u8>)> {
    let mut out = Vec::new();
    for target in (253..=262usize).chain(290..=310) {
        if let Some(r2) = pad_to(rec, b"pad", target) {
            out.push((if target <= 300 { "size-le-300" } else { "size-gt-300" }, r2.bytes()));
        }
    }
    // small records whose signed content crosses 55/56 bytes (where the list header of the signed message changes form)
    let small = Rec::minimal(rec.key, 1 + rec.seq % 100);
    let s0 = small.size();
    for target in s0 + 2..=s0 + 14 {
        if let Some(r2) = pad_to(&small, b"p", target) {
            out.push(("size-content-boundary", r2.bytes()));
        }
    }
    out
}

/// Well-formed, validly signed records of 64 KiB and more (sizes where a length truncated to 16 bits would look
/// small again).
pub fn giant_records(key: &RefKey) -> Vec<(&'static str, Vec<u8>)> {
    let mut out = Vec::new();
    for target in [65_536usize, 65_537, 65_600, 65_836, 131_072 + 120, 70_000, 4_000] {
        let mut rec = Rec::minimal(*key, 1);
        // the padding length that gives exactly `target`: header lengths are constant in this range
        rec.map.insert(b"pad".to_vec(), Item::S(vec![0xa5; target]));
        let s0 = rec.size();
        let over = s0 - target;
        rec.map.insert(b"pad".to_vec(), Item::S(vec![0xa5; target - over]));
        for adj in 0..6usize {
            let mut r2 = rec.clone();
            r2.map.insert(b"pad".to_vec(), Item::S(vec![0xa5; target - over + adj - 3.min(target - over)]));
            if r2.size() == target {
                out.push(("size-giant", r2.bytes()));
                break;
            }
        }
    }
    // oversized AND deeply nested: a signed record whose custom value is a list nested thousands of levels deep, and
    // the bare nest as the whole input (whatever walks the structure before the size check must not recurse)
    for depth in [2_000u32, 20_000, 100_000, 400_000] {
        let mut rec = Rec::minimal(*key, 1);
        rec.map.insert(b"nest".to_vec(), Item::R(rlp::nested_lists(depth)));
        out.push(("size-giant-nested", rec.bytes()));
        out.push(("nested-input", rlp::nested_lists(depth)));
    }
    out
}

/// Records whose secp256k1 signature has special byte values (leading zero bytes in r or s, small s):
/// found by varying a custom value until RefSig's deterministic signature satisfies the condition.
pub fn ground_signatures(rec: &Rec, tries: u32) -> Vec<(&'static str, Vec<u8>)> {
    let mut out: Vec<(&'static str, Vec<u8>)> = Vec::new();
    if rec.key.scheme == Scheme::Toy {
        return out;
    }
    let mut want: Vec<(&'static str, fn(&[u8]) -> bool)> = vec![
        ("valid-sig-r-leading-zero", |s| s[0] == 0),
        ("valid-sig-s-leading-zero", |s| s[32] == 0),
        ("valid-sig-r-high-bit", |s| s[0] >= 0xf0),
        ("valid-sig-trailing-zero", |s| s[63] == 0 || s[31] == 0),
    ];
    let mut r2 = rec.clone();
    for i in 0..tries {
        if want.is_empty() {
            break;
        }
        r2.map.insert(b"g".to_vec(), Item::S(rlp::uint_bytes(i as u64 + 1)));
        let items = r2.items();
        let sg = rec.key.sign(&content_of(&items));
        if let Some(pos) = want.iter().position(|(_, f)| f(&sg)) {
            let (cls, _) = want.remove(pos);
            out.push((cls, assemble_with_sig(&sg, &items)));
        }
    }
    out
}

/// One record per byte value b with the custom key [b] and the values [b] / [b, b] / 55 x b.
pub fn byte_sweep(key: &RefKey) -> Vec<(&'static str, Vec<u8>)> {
    let mut out = Vec::new();
    for b in 0..=255u8 {
        let mut rec = Rec::minimal(*key, 1 + b as u64);
        for (k, v) in [(vec![b], vec![b]), (vec![b, b], vec![b, b]), (vec![b, 0], vec![b; 55]), (vec![0x7f, b], vec![])] {
            if k == b"id" || k == key.scheme.enr_key() {
                continue;
            }
            rec.map.insert(k, Item::S(v));
        }
        out.push(("valid-byte-sweep", rec.bytes()));
    }
    // deeply nested list values (no recursion limit is specified; the record stays <= 300 bytes)
    for depth in [1usize, 2, 5, 20, 60, 120, 180] {
        let mut v = Item::L(vec![]);
        for _ in 0..depth {
            v = Item::L(vec![v]);
        }
        let mut rec = Rec::minimal(*key, 3);
        rec.map.insert(b"nest".to_vec(), v);
        if rec.size() <= 300 {
            out.push(("valid-deep-nesting", rec.bytes()));
        }
    }
    out
}

// ---------------------------------------------------------------------------------------------
// field-level tampers (not a valid signature for the content, by construction)
// ---------------------------------------------------------------------------------------------
pub fn field_tampers(rec: &Rec, other_key: &RefKey, other_rec: &Rec) -> Vec<(&'static str, Vec<u8>)> {
    let mut out: Vec<(&'static str, Vec<u8>)> = Vec::new();
    let items = rec.items();
    let content = content_of(&items);
    let sg = rec.key.sign(&content);
    // signature by a different key over the same content
    out.push(("sig-by-other-key", assemble_with_sig(&other_key.sign(&content), &items)));
    // signature by the right key over different content
    for (cls, f) in [
        ("sig-over-seq-plus-1", 0usize),
        ("sig-over-seq-minus-1", 1),
        ("sig-over-value-changed", 2),
        ("sig-over-pair-added", 3),
        ("sig-over-pair-removed", 4),
    ] {
        let mut r2 = rec.clone();
        match f {
            0 => r2.seq = rec.seq.wrapping_add(1),
            1 => r2.seq = rec.seq.wrapping_sub(1),
            2 => {
                r2.map.insert(b"id".to_vec(), Item::S(b"v4".to_vec()));
                r2.map.insert(b"zz".to_vec(), Item::S(vec![1]));
                // the record that is presented carries zz=2
                let mut r3 = rec.clone();
                r3.map.insert(b"zz".to_vec(), Item::S(vec![2]));
                out.push((cls, assemble(&rec.key, &r3.items(), &r2.items())));
                continue;
            }
            3 => {
                r2.map.insert(b"zz".to_vec(), Item::S(vec![1]));
            }
            _ => {
                let mut r3 = rec.clone();
                r3.map.insert(b"zz".to_vec(), Item::S(vec![1]));
                out.push((cls, assemble(&rec.key, &r3.items(), &rec.items())));
                continue;
            }
        }
        out.push((cls, assemble(&rec.key, &items, &r2.items())));
    }
    // signature lifted from another record of the same key
    {
        let oc = content_of(&other_rec.items());
        out.push(("sig-of-another-record", assemble_with_sig(&other_rec.key.sign(&oc), &items)));
    }
    if rec.key.scheme == Scheme::Secp {
        let mut s64 = [0u8; 64];
        s64.copy_from_slice(&sg);
        out.push(("sig-high-s-twin", assemble_with_sig(&sig::secp_high_s_twin(&s64), &items)));
        for (cls, half, val) in [
            ("sig-r-zero", 0usize, u256::ZERO),
            ("sig-s-zero", 1, u256::ZERO),
            ("sig-r-n", 0, u256::N),
            ("sig-s-n", 1, u256::N),
            ("sig-r-max", 0, [0xff; 32]),
            ("sig-s-max", 1, [0xff; 32]),
            ("sig-s-n-plus-1", 1, u256::add_small(&u256::N, 1)),
        ] {
            let mut t = s64;
            t[half * 32..half * 32 + 32].copy_from_slice(&val);
            out.push((cls, assemble_with_sig(&t, &items)));
        }
        // r + n (if it fits) is the same point x mod n: must still be rejected or be outside range
    }
    for (cls, s) in [
        ("sig-wrong-length", sg[..sg.len() - 1].to_vec()),
        ("sig-wrong-length", [sg.clone(), vec![0]].concat()),
        ("sig-wrong-length", Vec::new()),
        ("sig-wrong-length", [sg.clone(), sg.clone()].concat()),
        ("sig-wrong-length", sg[..32.min(sg.len())].to_vec()),
        ("sig-all-zero", vec![0u8; sg.len()]),
    ] {
        out.push((cls, assemble_with_sig(&s, &items)));
    }
    // other encodings of the SAME valid signature: DER (70..72 bytes), r||s||v (65 bytes)
    if sg.len() == 64 && rec.key.scheme == Scheme::Secp {
        let int = |b: &[u8]| -> Vec<u8> {
            let nz: Vec<u8> = b[b.iter().position(|&x| x != 0).unwrap_or(31)..].to_vec();
            let mut v = if nz[0] & 0x80 != 0 { vec![0u8] } else { vec![] };
            v.extend_from_slice(&nz);
            [vec![0x02, v.len() as u8], v].concat()
        };
        let body = [int(&sg[..32]), int(&sg[32..])].concat();
        let der = [vec![0x30, body.len() as u8], body].concat();
        out.push(("sig-der-encoded", assemble_with_sig(&der, &items)));
        for v in [0u8, 1, 27, 28] {
            out.push(("sig-with-recovery-id", assemble_with_sig(&[&sg[..], &[v][..]].concat(), &items)));
        }
    }
    // signature by the right key over the right content FRAMED differently: long-form list header where the short
    // form is canonical, a length with a leading zero byte, the bare payload, the content as a byte string
    {
        let payload = rlp::enc_items(&items);
        let mut framings: Vec<Vec<u8>> = vec![payload.clone(), rlp::enc_str(&payload), leadzero_long(&payload, true)];
        if payload.len() < 56 {
            framings.push(noncanon_long(&payload, true));
        } else if payload.len() < 256 {
            let mut v = vec![0xf9, 0x00, payload.len() as u8];
            v.extend_from_slice(&payload);
            framings.push(v);
        }
        for f in framings {
            if f != content {
                out.push(("sig-over-other-framing", assemble_with_sig(&rec.key.sign(&f), &items)));
            }
        }
    }
    // signature with one byte dropped at the front of r / of s, or left-padded (interesting when that byte is 0)
    if sg.len() == 64 {
        out.push(("sig-leading-byte-dropped", assemble_with_sig(&sg[1..], &items)));
        out.push(("sig-leading-byte-dropped", assemble_with_sig(&[&sg[..32], &sg[33..]].concat(), &items)));
        out.push(("sig-left-padded", assemble_with_sig(&[&[0u8][..], &sg[..]].concat(), &items)));
        // two bytes changed by the same mask (differences that cancel under xor-folding compares)
        for (i, j, m) in [(3usize, 40usize, 0x5au8), (0, 63, 0xff), (31, 32, 0x01), (10, 11, 0x80)] {
            let mut t = sg.clone();
            t[i] ^= m;
            t[j] ^= m;
            out.push(("sig-two-bytes-xor", assemble_with_sig(&t, &items)));
        }
    }
    if rec.key.scheme == Scheme::Secp {
        // the negated key (02 <-> 03) BEFORE any other key is shown to the decoder
        let mut p = rec.key.pub_bytes();
        p[0] ^= 1;
        let mut r2 = rec.clone();
        r2.map.insert(b"secp256k1".to_vec(), Item::S(p));
        out.push(("pubkey-negated", assemble_with_sig(&sg, &r2.items())));
        out.push(("pubkey-negated", assemble(&rec.key, &r2.items(), &r2.items())));
    }
    // public key swapped for another valid key, signature untouched
    {
        let mut r2 = rec.clone();
        r2.map.insert(rec.key.scheme.enr_key().to_vec(), Item::S(other_key.pub_bytes()));
        out.push(("pubkey-swapped", assemble_with_sig(&sg, &r2.items())));
        // ... and the signature re-made by the *old* key over the new content
        out.push(("pubkey-swapped", assemble(&rec.key, &r2.items(), &r2.items())));
    }
    out
}

// ---------------------------------------------------------------------------------------------
// byte-level alterations (not re-signed)
// ---------------------------------------------------------------------------------------------
pub fn bit_flips(base: &[u8]) -> impl Iterator<Item = Vec<u8>> + '_ {
    (0..base.len() * 8).map(move |i| {
        let mut v = base.to_vec();
        v[i / 8] ^= 1 << (i % 8);
        v
    })
}
pub fn truncations(base: &[u8]) -> impl Iterator<Item = Vec<u8>> + '_ {
    (0..base.len()).map(move |i| base[..i].to_vec())
}
pub fn deletions(base: &[u8]) -> impl Iterator<Item = Vec<u8>> + '_ {
    (0..base.len()).map(move |i| {
        let mut v = base.to_vec();
        v.remove(i);
        v
    })
}
pub fn byte_edits(base: &[u8]) -> impl Iterator<Item = Vec<u8>> + '_ {
    (0..base.len() * 4).filter_map(move |j| {
        let (i, m) = (j / 4, j % 4);
        let mut v = base.to_vec();
        let nv = match m {
            0 => 0x00,
            1 => 0xff,
            2 => v[i].wrapping_add(1),
            _ => v[i].wrapping_sub(1),
        };
        if nv == v[i] {
            return None;
        }
        v[i] = nv;
        Some(v)
    })
}
pub fn insertions(base: &[u8]) -> impl Iterator<Item = Vec<u8>> + '_ {
    (0..(base.len() + 1) * 3).map(move |j| {
        let (i, m) = (j / 3, j % 3);
        let mut v = base.to_vec();
        v.insert(i, [0x00, 0x80, 0xff][m]);
        v
    })
}

// ---------------------------------------------------------------------------------------------
// unstructured
// ---------------------------------------------------------------------------------------------
pub fn random_tree(r: &mut impl RngCore, depth: u32) -> Item {
    if depth == 0 || below(r, 3) != 0 {
        let n = match below(r, 6) {
            0 => 0,
            1 => 1,
            2 => 33,
            3 => 64,
            _ => below(r, 70) as usize,
        };
        Item::S(rand_bytes(r, n))
    } else {
        let n = below(r, 6) as usize;
        Item::L((0..n).map(|_| random_tree(r, depth - 1)).collect())
    }
}

pub fn random_unstructured(r: &mut impl RngCore) -> Vec<u8> {
    match below(r, 4) {
        0 => {
            let n = below(r, 400) as usize;
            rand_bytes(r, n)
        }
        1 => rlp::enc_item(&random_tree(r, 3)),
        2 => {
            // a list that starts like a record
            let mut items = vec![Item::S(rand_bytes(r, 64)), Item::S(rlp::uint_bytes(r.next_u64() >> below(r, 64)))];
            let n = below(r, 8);
            for _ in 0..n {
                items.push(random_tree(r, 2));
            }
            rlp::enc_item(&Item::L(items))
        }
        _ => {
            // header-like prefixes followed by noise
            let mut v = vec![*pick(r, &[0xf8u8, 0xf9, 0xc0, 0xc1, 0xb8, 0xbf, 0xff, 0xf7, 0x80, 0x7f])];
            let n = below(r, 80) as usize;
            v.extend_from_slice(&rand_bytes(r, n));
            v
        }
    }
}

pub fn random_string(r: &mut impl RngCore) -> String {
    // mostly short; sometimes up to 2 KiB (C03's bounded-progress clause is stated for <= 2 KiB)
    let n = if below(r, 12) == 0 { 400 + below(r, 1600) as usize } else { below(r, 120) as usize };
    let mut s = String::new();
    if below(r, 3) == 0 {
        s.push_str(*pick(r, &["enr:", "ENR:", "enr:enr:", "enr", "en", "e", "enr;"]));
    }
    for _ in 0..n {
        let c = match below(r, 8) {
            0 => *pick(r, &['=', '+', '/', ' ', '\n', '\t', '\0', 'é', '日', '😀', '-', '_', ':']),
            _ => b"ABCDEFGHIJKLMNOPQRSTUVWXYZabcdefghijklmnopqrstuvwxyz0123456789-_"[below(r, 64) as usize] as char,
        };
        s.push(c);
    }
    s
}
