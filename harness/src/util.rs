use rand::{RngCore, SeedableRng};
use rand_chacha::ChaCha8Rng;
use std::cell::RefCell;
use std::panic::{catch_unwind, AssertUnwindSafe};

pub fn hex(b: &[u8]) -> String {
    const H: &[u8; 16] = b"0123456789abcdef";
    let mut s = String::with_capacity(b.len() * 2);
    for &x in b {
        s.push(H[(x >> 4) as usize] as char);
        s.push(H[(x & 15) as usize] as char);
    }
    s
}

pub fn unhex(s: &str) -> Option<Vec<u8>> {
    let b = s.as_bytes();
    if b.len() % 2 != 0 {
        return None;
    }
    let v = |c: u8| match c {
        b'0'..=b'9' => Some(c - b'0'),
        b'a'..=b'f' => Some(c - b'a' + 10),
        b'A'..=b'F' => Some(c - b'A' + 10),
        _ => None,
    };
    let mut out = Vec::with_capacity(b.len() / 2);
    for p in b.chunks(2) {
        out.push((v(p[0])? << 4) | v(p[1])?);
    }
    Some(out)
}

/// FNV-1a 64 over several parts — used only for *distinctness counting* of cases.
pub fn h64(parts: &[&[u8]]) -> u64 {
    let mut h: u64 = 0xcbf29ce484222325;
    for p in parts {
        for &b in *p {
            h ^= b as u64;
            h = h.wrapping_mul(0x100000001b3);
        }
        h ^= 0xff;
        h = h.wrapping_mul(0x100000001b3);
    }
    h
}

pub fn rng_for(seed: u64, labels: &[&str], n: u64) -> ChaCha8Rng {
    let mut key = [0u8; 32];
    key[..8].copy_from_slice(&seed.to_le_bytes());
    let mut lab = Vec::new();
    for l in labels {
        lab.extend_from_slice(l.as_bytes());
        lab.push(0);
    }
    key[8..16].copy_from_slice(&h64(&[&lab]).to_le_bytes());
    key[16..24].copy_from_slice(&n.to_le_bytes());
    ChaCha8Rng::from_seed(key)
}

pub fn rand_bytes(r: &mut impl RngCore, n: usize) -> Vec<u8> {
    let mut v = vec![0u8; n];
    r.fill_bytes(&mut v);
    v
}

pub fn below(r: &mut impl RngCore, n: u64) -> u64 {
    if n == 0 {
        0
    } else {
        r.next_u64() % n
    }
}

pub fn pick<'a, T>(r: &mut impl RngCore, v: &'a [T]) -> &'a T {
    &v[below(r, v.len() as u64) as usize]
}

thread_local! {
    static LAST_PANIC: RefCell<Option<String>> = const { RefCell::new(None) };
}

/// Install a quiet panic hook that records the message + location for `guard`.
pub fn install_panic_hook() {
    std::panic::set_hook(Box::new(|info| {
        let msg = if let Some(s) = info.payload().downcast_ref::<&str>() {
            s.to_string()
        } else if let Some(s) = info.payload().downcast_ref::<String>() {
            s.clone()
        } else {
            "<non-string panic>".to_string()
        };
        let loc = info.location().map(|l| format!("{}:{}", l.file(), l.line())).unwrap_or_default();
        LAST_PANIC.with(|p| *p.borrow_mut() = Some(format!("{msg} @ {loc}")));
    }));
}

/// Run a library call; a panic is caught and returned as Err(message).
pub fn guard<T>(f: impl FnOnce() -> T) -> Result<T, String> {
    match catch_unwind(AssertUnwindSafe(f)) {
        Ok(v) => Ok(v),
        Err(_) => Err(LAST_PANIC.with(|p| p.borrow_mut().take()).unwrap_or_else(|| "<panic>".into())),
    }
}

/// Thread CPU time in nanoseconds (not wall clock, so machine load cannot trigger the bound).
pub fn thread_cpu_ns() -> u64 {
    #[cfg(not(miri))]
    unsafe {
        let mut ts = libc::timespec { tv_sec: 0, tv_nsec: 0 };
        libc::clock_gettime(libc::CLOCK_THREAD_CPUTIME_ID, &mut ts);
        ts.tv_sec as u64 * 1_000_000_000 + ts.tv_nsec as u64
    }
    #[cfg(miri)]
    {
        0
    }
}

/// strip the source location (line numbers move) from a panic message for dedup signatures
pub fn panic_sig(msg: &str) -> String {
    let m = msg.split(" @ ").next().unwrap_or(msg);
    let m: String = m.chars().filter(|c| !c.is_ascii_digit()).take(60).collect();
    m
}
