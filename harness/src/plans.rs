//! W-HIST plans: the concrete alphabet of every public mutator, initial records at the sequence-number
//! and size boundaries, bounded-exhaustive and random history generators, and key-kind dispatch.

use crate::gen::{self, Rec};
use crate::hist::{run_history, HistStats, History, Init, RunOpts};
use crate::keys::*;
use crate::model::*;
use crate::refimpl::decode::KT;
use crate::refimpl::rlp::{self, Item};
use crate::refimpl::sig::{RefKey, Scheme};
use crate::report::Ctx;
use crate::util::{below, pick, rand_bytes};
use rand::RngCore;
use std::net::{IpAddr, Ipv4Addr, Ipv6Addr, SocketAddr};

/// (key type, scheme) combinations of this build
pub fn kinds() -> Vec<(KT, Scheme)> {
    if cfg!(miri) {
        return vec![(KT::Toy, Scheme::Toy)];
    }
    let mut v = vec![(KT::K256, Scheme::Secp)];
    #[cfg(feature = "libsecp")]
    v.push((KT::Libsecp, Scheme::Secp));
    if cfg!(feature = "ed") {
        v.push((KT::Ed, Scheme::Ed));
        v.push((KT::Comb, Scheme::Secp));
        v.push((KT::Comb, Scheme::Ed));
    }
    v.push((KT::Toy, Scheme::Toy));
    v
}

pub fn run_hist_kt(ctx: &mut Ctx, kt: KT, faulty: bool, h: &History, opts: &RunOpts) -> HistStats {
    macro_rules! go {
        ($kk:ty) => {
            if faulty {
                run_history::<FaultK<$kk>>(ctx, h, opts)
            } else {
                run_history::<$kk>(ctx, h, opts)
            }
        };
    }
    match kt {
        KT::K256 => go!(K256K),
        #[cfg(feature = "libsecp")]
        KT::Libsecp => go!(LibsecpK),
        #[cfg(not(feature = "libsecp"))]
        KT::Libsecp => panic!("libsecp256k1 not in this build"),
        KT::Ed => go!(EdK),
        KT::Comb => go!(CombK),
        KT::Toy => go!(ToyK),
    }
}

pub fn own_ref(scheme: Scheme, own: u64) -> RefKey {
    RefKey::new(scheme, secret_from(scheme, own))
}

fn v4(a: u8, b: u8, c: u8, d: u8) -> IpAddr {
    IpAddr::V4(Ipv4Addr::new(a, b, c, d))
}
fn v6(last: u16) -> IpAddr {
    IpAddr::V6(Ipv6Addr::new(0x2001, 0xdb8, 0, 0, 0, 0, 0, last))
}

/// The concrete alphabet (DESIGN.md §5, W-HIST). `own`/`other` are the keys' public bytes.
pub fn alphabet(scheme: Scheme, init_seq: u64, own_pub: &[u8], other_pub: &[u8]) -> Vec<Op> {
    let slot = scheme.enr_key().to_vec();
    let k = |s: &str| s.as_bytes().to_vec();
    // fixed valid foreign keys (the EIP-778 example key; RFC 8032 test 1) — constants, so that building
    // the alphabet costs no curve arithmetic under Miri
    let other_secp = crate::util::unhex("03ca634cae0d49acb401d8a4c6b6fe8c55b70d115bf400769cc1400f3258cd3138").unwrap();
    let other_ed = crate::util::unhex("d75a980182b10ab7d54bfed3c964073a0ee172f3daa62325af021a68f707511a").unwrap();
    let mut a: Vec<Op> = Vec::new();
    for s in [0, init_seq, init_seq.wrapping_add(1), 255, u64::MAX - 1, u64::MAX] {
        a.push(Op::SetSeq(s));
    }
    // typed inserts under custom keys
    a.push(Op::Insert(k("x"), Val::B(vec![])));
    a.push(Op::Insert(k("x"), Val::B(vec![0x01])));
    a.push(Op::Insert(k("x"), Val::B(vec![0x80])));
    a.push(Op::Insert(k("x"), Val::B(vec![0xab; 60])));
    a.push(Op::Insert(k("n"), Val::U8(0)));
    a.push(Op::Insert(k("n"), Val::U16(256)));
    a.push(Op::Insert(k("n"), Val::U64(u64::MAX)));
    a.push(Op::Insert(k("s"), Val::Str("héllo wörld".into())));
    a.push(Op::Insert(k("client"), Val::L(vec![b"Nimbus".to_vec(), b"v1".to_vec()])));
    a.push(Op::Insert(k("client"), Val::L(vec![b"one".to_vec()])));
    // a byte string that WRAPS an encoded client list (double encoding): not a client entry
    a.push(Op::Insert(k("client"), Val::B(Val::L(vec![b"Nimbus".to_vec(), b"v1".to_vec()]).canonical())));
    a.push(Op::Insert(k("client"), Val::B(Val::L(vec![b"a".to_vec(), b"b".to_vec(), b"c".to_vec()]).canonical())));
    a.push(Op::Insert(k("client"), Val::LL(vec![vec![b"Nimbus".to_vec(), b"v1".to_vec()]])));
    // client lists of every shape (a list where a byte string belongs, four entries, empty, long entries)
    for shape in gen::client_shapes() {
        a.push(Op::InsertRaw(k("client"), crate::refimpl::rlp::enc_item(&shape)));
    }
    a.push(Op::Insert(k("tcp"), Val::B(vec![0x82, 0x1f, 0x90])));
    a.push(Op::Insert(k("ll"), Val::LL(vec![vec![vec![1], vec![]], vec![]])));
    a.push(Op::Insert(vec![], Val::B(vec![1, 2])));
    // long keys: 55 / 56 bytes (RLP header form changes) and one that cannot fit
    a.push(Op::Insert(vec![b'k'; 55], Val::U8(1)));
    a.push(Op::Insert(vec![b'k'; 56], Val::B(vec![])));
    a.push(Op::Insert(vec![b'k'; 400], Val::U8(1)));
    a.push(Op::RemoveKey(vec![b'k'; 56]));
    a.push(Op::Insert(k("rec"), Val::Rec));
    a.push(Op::Insert(k("recs"), Val::RecList));
    a.push(Op::Insert(vec![0xff, 0x00], Val::U8(7)));
    // reserved keys, well-typed
    a.push(Op::Insert(k("tcp"), Val::U16(80)));
    a.push(Op::Insert(k("udp6"), Val::U64(65_535)));
    a.push(Op::Insert(k("udp"), Val::U8(0)));
    a.push(Op::Insert(k("ip"), Val::B(vec![10, 0, 0, 1])));
    a.push(Op::Insert(k("ip6"), Val::B(vec![0xfe; 16])));
    a.push(Op::Insert(k("id"), Val::B(b"v4".to_vec())));
    a.push(Op::Insert(k("id"), Val::Str("v4".into())));
    // reserved keys, ill-typed
    a.push(Op::Insert(k("tcp"), Val::U64(65_536)));
    a.push(Op::Insert(k("udp"), Val::B(vec![0, 80])));
    a.push(Op::Insert(k("tcp6"), Val::L(vec![])));
    a.push(Op::Insert(k("ip"), Val::B(vec![1, 2, 3])));
    a.push(Op::Insert(k("ip"), Val::B(vec![1, 2, 3, 4, 5])));
    a.push(Op::Insert(k("ip6"), Val::B(vec![1, 2, 3, 4])));
    a.push(Op::Insert(k("ip6"), Val::L(vec![vec![0; 16]])));
    a.push(Op::Insert(k("id"), Val::B(b"v5".to_vec())));
    a.push(Op::Insert(k("id"), Val::L(vec![b"v4".to_vec()])));
    // public-key keys
    a.push(Op::Insert(k("secp256k1"), Val::B(vec![0x02; 33])));
    a.push(Op::Insert(k("secp256k1"), Val::B(other_secp.clone())));
    a.push(Op::Insert(k("secp256k1"), Val::L(vec![other_secp.clone()])));
    a.push(Op::Insert(k("secp256k1"), Val::B(vec![])));
    // a compressed-form tag on a value of the wrong length
    a.push(Op::Insert(k("secp256k1"), Val::B(vec![2, 1, 2, 3])));
    a.push(Op::Insert(k("secp256k1"), Val::B(vec![3; 32])));
    a.push(Op::Insert(k("secp256k1"), Val::B(vec![2; 34])));
    a.push(Op::InsertRaw(k("secp256k1"), vec![0x02]));
    if !cfg!(miri) {
        // the 65-byte SEC1 forms of the same key: uncompressed (04) and hybrid (06/07), and a 65-byte non-point
        if let Some((_, u)) = crate::refimpl::sig::secp_normalise(&other_secp) {
            let mut unc = vec![4u8];
            unc.extend_from_slice(&u);
            let mut hyb = unc.clone();
            hyb[0] = 6 + (u[63] & 1);
            a.push(Op::Insert(k("secp256k1"), Val::B(unc.clone())));
            a.push(Op::Insert(k("secp256k1"), Val::B(hyb.clone())));
            a.push(Op::RemoveInsert(vec![], vec![(k("secp256k1"), hyb)]));
            let mut bad = unc;
            bad[64] ^= 1;
            a.push(Op::Insert(k("secp256k1"), Val::B(bad)));
        }
    }
    a.push(Op::Insert(k("ed25519"), Val::B(other_ed.clone())));
    a.push(Op::Insert(k("ed25519"), Val::L(vec![])));
    a.push(Op::Insert(k("ed25519"), Val::B(vec![1, 2, 3, 4, 5])));
    a.push(Op::Insert(slot.clone(), Val::B(own_pub.to_vec())));
    a.push(Op::Insert(slot.clone(), Val::B(other_pub.to_vec())));
    a.push(Op::Insert(slot.clone(), Val::B(vec![0x55; 7])));
    if scheme == Scheme::Secp && !cfg!(miri) {
        // the signer's OWN key in its other SEC1 encodings (uncompressed, hybrid): whatever the call answers, a
        // record handed out carries the canonical compressed key
        if let Some((_, u)) = crate::refimpl::sig::secp_normalise(own_pub) {
            let mut unc = vec![4u8];
            unc.extend_from_slice(&u);
            let mut hyb = unc.clone();
            hyb[0] = 6 + (u[63] & 1);
            a.push(Op::Insert(slot.clone(), Val::B(unc.clone())));
            a.push(Op::Insert(slot.clone(), Val::B(hyb)));
            a.push(Op::RemoveInsert(vec![], vec![(slot.clone(), unc)]));
        }
    }
    // raw inserts: one valid item
    a.push(Op::InsertRaw(k("r"), vec![0x05]));
    a.push(Op::InsertRaw(k("r"), vec![0x80]));
    a.push(Op::InsertRaw(k("r"), vec![0xc0]));
    a.push(Op::InsertRaw(k("r"), vec![0xc3, 0x01, 0x02, 0x03]));
    a.push(Op::InsertRaw(k("r"), rlp::enc_str(&[0x33; 57])));
    a.push(Op::InsertRaw(k("r"), vec![0xc4, 0xc2, 0x01, 0x80, 0x05]));
    // raw inserts: not exactly one well-formed item
    a.push(Op::InsertRaw(k("r"), vec![]));
    a.push(Op::InsertRaw(k("r"), vec![0x01, 0x02]));
    a.push(Op::InsertRaw(k("r"), vec![0xc1]));
    a.push(Op::InsertRaw(k("r"), vec![0x83, 0x01, 0x02]));
    a.push(Op::InsertRaw(k("r"), vec![0x81, 0x05]));
    a.push(Op::InsertRaw(k("r"), vec![0xb8, 0x02, 0x01, 0x02]));
    a.push(Op::InsertRaw(k("r"), vec![0x05, 0xff]));
    a.push(Op::InsertRaw(k("r"), vec![0xc0, 0xc0]));
    a.push(Op::InsertRaw(k("r"), vec![0xc2, 0x83, 0x01]));
    a.push(Op::InsertRaw(k("r"), vec![0xf8, 0x01, 0x05]));
    a.push(Op::InsertRaw(k("r"), vec![0xbf]));
    if !cfg!(miri) {
        // very deep and very long values (nothing bounds the argument of the raw entry point)
        a.push(Op::InsertRawNested(k("r"), 400_000));
        a.push(Op::InsertRawNested(k("r"), 40));
        a.push(Op::Insert(k("huge"), Val::B(vec![0x11; 70_000])));
        a.push(Op::RemoveInsert(vec![], vec![(k("huge"), vec![0x12; 70_000])]));
        a.push(Op::RemoveInsert(vec![k("x")], vec![(k("a"), vec![1]), (k("huge"), vec![0x13; 66_000]), (k("b"), vec![2])]));
    }
    // raw inserts under reserved keys
    a.push(Op::InsertRaw(k("tcp"), vec![0x82, 0x1f, 0x90]));
    a.push(Op::InsertRaw(k("tcp"), vec![0x82, 0x00, 0x50]));
    a.push(Op::InsertRaw(k("tcp"), vec![0x83, 0x01, 0x00, 0x00]));
    a.push(Op::InsertRaw(k("udp"), vec![0x50, 0x50]));
    a.push(Op::InsertRaw(k("ip"), vec![0x84, 1, 2, 3, 4]));
    a.push(Op::InsertRaw(k("ip"), vec![0x85, 1, 2, 3, 4, 5]));
    a.push(Op::InsertRaw(k("ip"), vec![0x84, 1, 2, 3, 4, 5]));
    a.push(Op::InsertRaw(k("id"), vec![0x82, b'v', b'4']));
    a.push(Op::InsertRaw(k("id"), vec![0x82, b'v', b'5']));
    a.push(Op::InsertRaw(k("id"), vec![0x82, b'v', b'4', 0x00]));
    a.push(Op::InsertRaw(k("ed25519"), vec![0xc1, 0x01]));
    a.push(Op::InsertRaw(k("secp256k1"), vec![0xc0]));
    // typed setters
    a.push(Op::SetIp(v4(1, 2, 3, 4)));
    a.push(Op::SetIp(v4(0, 0, 0, 0)));
    a.push(Op::SetIp(v6(1)));
    a.push(Op::SetIp(IpAddr::V6(Ipv6Addr::from([0xff; 16]))));
    for p in [0u16, 65_535, 30_303] {
        a.push(Op::SetUdp4(p));
    }
    for p in [127u16, 128] {
        a.push(Op::SetTcp4(p));
    }
    for p in [255u16, 256] {
        a.push(Op::SetUdp6(p));
    }
    for p in [1u16, 65_535] {
        a.push(Op::SetTcp6(p));
    }
    a.extend([Op::RemoveUdp4, Op::RemoveUdp6, Op::RemoveTcp, Op::RemoveTcp6]);
    a.push(Op::SetClientInfo("Nimbus".into(), "v1.0".into(), None));
    a.push(Op::SetClientInfo("a".into(), "b".into(), Some("c".into())));
    a.push(Op::SetClientInfo("".into(), "".into(), None));
    a.push(Op::SetClientInfo("ñandú".into(), "版本".into(), Some("🚀".into())));
    a.push(Op::SetClientInfo("L".repeat(90), "v".into(), Some("b".repeat(30))));
    // special IPv6 forms: IPv4-mapped, IPv4-compatible, unspecified, NAT64, multicast
    let mapped: IpAddr = "::ffff:10.1.2.3".parse().unwrap();
    a.push(Op::SetIp(mapped));
    a.push(Op::SetUdpSocket(SocketAddr::new(mapped, 4242)));
    a.push(Op::SetTcpSocket(SocketAddr::new("::ffff:255.255.255.255".parse().unwrap(), 80)));
    a.push(Op::SetUdpSocket(SocketAddr::new("::".parse().unwrap(), 1)));
    a.push(Op::SetTcpSocket(SocketAddr::new("::1.2.3.4".parse().unwrap(), 65_535)));
    a.push(Op::SetIp("64:ff9b::c000:201".parse().unwrap()));
    a.push(Op::SetIp("ff02::1".parse().unwrap()));
    a.push(Op::SetIp(v4(127, 0, 0, 1)));
    a.push(Op::SetIp(v4(255, 255, 255, 255)));
    a.push(Op::SetUdpSocket(SocketAddr::new(v4(192, 168, 0, 1), 9000)));
    a.push(Op::SetUdpSocket(SocketAddr::new(v6(7), 0)));
    a.push(Op::SetTcpSocket(SocketAddr::new(v4(255, 255, 255, 255), 65_535)));
    a.push(Op::SetTcpSocket(SocketAddr::new(v6(9), 256)));
    a.extend([Op::RemoveUdpSocket, Op::RemoveUdp6Socket, Op::RemoveTcpSocket, Op::RemoveTcp6Socket]);
    for key in [k("x"), k("absent"), k("id"), slot.clone(), k("ip"), k("tcp")] {
        a.push(Op::RemoveKey(key));
    }
    // remove_insert
    let ri = |rm: &[&str], ins: Vec<(Vec<u8>, Vec<u8>)>| Op::RemoveInsert(rm.iter().map(|s| s.as_bytes().to_vec()).collect(), ins);
    a.push(ri(&[], vec![]));
    a.push(ri(&["ip", "udp"], vec![]));
    a.push(ri(&["x"], vec![(k("y"), vec![1, 2])]));
    a.push(ri(&["absent", "absent"], vec![(k("tcp"), vec![0x1f, 0x90])]));
    a.push(ri(&[], vec![(k("tcp"), vec![0, 80])]));
    a.push(ri(&[], vec![(k("udp6"), vec![1, 0, 0])]));
    a.push(ri(&[], vec![(k("ip"), vec![1, 2, 3, 4, 5])]));
    a.push(ri(&[], vec![(k("ip"), vec![9, 9, 9, 9])]));
    a.push(ri(&[], vec![(k("ip6"), vec![7; 16])]));
    a.push(ri(&[], vec![(k("ip6"), vec![7; 15])]));
    a.push(ri(&[], vec![(k("id"), b"v5".to_vec())]));
    a.push(ri(&[], vec![(k("id"), b"v4".to_vec())]));
    a.push(ri(&["id"], vec![]));
    a.push(ri(&["id"], vec![(k("id"), b"v4".to_vec())]));
    a.push(Op::RemoveInsert(vec![], vec![(slot.clone(), vec![0x66; 9])]));
    a.push(Op::RemoveInsert(vec![slot.clone()], vec![]));
    a.push(Op::RemoveInsert(vec![], vec![(slot.clone(), other_pub.to_vec())]));
    a.push(ri(&["x", "x"], vec![(k("x"), vec![1]), (k("x"), vec![2])]));
    a.push(ri(&["tcp", "x"], vec![(k("x"), vec![]), (k("udp"), vec![80])]));
    a.push(ri(&[], vec![(k("secp256k1"), vec![1, 2, 3])]));
    a.push(ri(&[], vec![(k("ed25519"), other_ed.clone())]));
    a.push(ri(&[], vec![(k("big"), vec![0x77; 150])]));
    a.push(Op::SetPublicKey(PkArg::OfSigner));
    a.push(Op::SetPublicKey(PkArg::OfNonSigner));
    a.push(Op::SetPublicKey(PkArg::OtherScheme));
    a
}

/// the sub-alphabet used for deeper bounded-exhaustive exploration
pub fn sub_alphabet(scheme: Scheme, init_seq: u64, own_pub: &[u8], other_pub: &[u8]) -> Vec<Op> {
    let full = alphabet(scheme, init_seq, own_pub, other_pub);
    let mut seen = std::collections::BTreeMap::<String, usize>::new();
    let mut out = Vec::new();
    for op in full {
        // keep the first two instances of every mutator plus every raw / remove_insert corner
        let n = seen.entry(op.name().to_string()).or_insert(0);
        *n += 1;
        let keep = match &op {
            Op::Insert(..) => *n <= 6 || *n % 5 == 0,
            Op::InsertRaw(..) => *n % 3 == 1,
            Op::RemoveInsert(..) => *n % 3 == 1,
            Op::SetSeq(_) => *n <= 3,
            _ => *n <= 1,
        };
        if keep {
            out.push(op);
        }
    }
    out
}

/// Initial records: built with the library builder and decoded from RefSig-signed records, at
/// sequence-number and size boundaries.
pub fn inits(scheme: Scheme, own: u64) -> Vec<(String, u64, Init)> {
    thread_local! {
        static CACHE: std::cell::RefCell<std::collections::HashMap<(Scheme, u64), Vec<(String, u64, Init)>>> = std::cell::RefCell::new(std::collections::HashMap::new());
    }
    if let Some(v) = CACHE.with(|c| c.borrow().get(&(scheme, own)).cloned()) {
        return v;
    }
    let v = inits_uncached(scheme, own);
    CACHE.with(|c| c.borrow_mut().insert((scheme, own), v.clone()));
    v
}

fn inits_uncached(scheme: Scheme, own: u64) -> Vec<(String, u64, Init)> {
    let key = own_ref(scheme, own);
    let mut v: Vec<(String, u64, Init)> = Vec::new();
    v.push(("built-minimal".into(), 1, Init::Build(vec![])));
    v.push((
        "built-typical".into(),
        1,
        Init::Build(vec![
            BEntry::Ip4([192, 168, 1, 7]),
            BEntry::Udp4(30303),
            BEntry::Tcp4(30303),
            BEntry::Ip6([0x20, 1, 0xd, 0xb8, 0, 0, 0, 0, 0, 0, 0, 0, 0, 0, 0, 1]),
            BEntry::Udp6(9000),
            BEntry::Add(b"x".to_vec(), Val::B(vec![1, 2, 3])),
            BEntry::Client("Lighthouse".into(), "v5".into(), None),
        ]),
    ));
    // a record that also carries an entry of ANOTHER scheme's key name (application data as far as this key type
    // is concerned)
    {
        let foreign = if scheme == Scheme::Ed {
            BEntry::Add(b"secp256k1".to_vec(), Val::B(vec![9, 9, 9, 9, 9]))
        } else {
            BEntry::Add(b"ed25519".to_vec(), Val::B(crate::util::unhex("d75a980182b10ab7d54bfed3c964073a0ee172f3daa62325af021a68f707511a").unwrap()))
        };
        v.push(("built-foreign-key-entry".into(), 254, Init::Build(vec![BEntry::Seq(254), foreign.clone(), BEntry::Tcp4(1)])));
        v.push(("built-foreign-key-entry-near-max".into(), u64::MAX - 2, Init::Build(vec![BEntry::Seq(u64::MAX - 2), foreign])));
    }
    // (2^63-1 / 2^63 and 2^31-1 / 2^31: where a signed 64- or 32-bit view of the number changes sign)
    for s in [0u64, 127, 255, 65_535, 0xffff_ffff, u64::MAX - 1, u64::MAX, i64::MAX as u64, 1 << 63, 0x7fff_ffff, 0x8000_0000] {
        v.push((format!("built-seq-{s}"), s, Init::Build(vec![BEntry::Seq(s), BEntry::Add(b"x".to_vec(), Val::U8(9)), BEntry::Udp4(1)])));
    }
    // near the size limit: decoded records of exactly 290..=300 bytes (not under Miri: the padding
    // search alone would eat the interpreter's budget)
    let near: &[(usize, u64)] = if cfg!(miri) { &[] } else { &[(290usize, 1u64), (297, 127), (299, 255), (300, 5), (300, 65_535), (298, u64::MAX), (296, 1)] };
    for &(target, seq) in near {
        let mut rec = Rec::minimal(key, seq);
        rec.map.insert(b"ip".to_vec(), Item::S(vec![127, 0, 0, 1]));
        rec.map.insert(b"x".to_vec(), Item::S(vec![5]));
        if let Some(r2) = gen::pad_to(&rec, b"pad", target) {
            v.push((format!("decoded-size-{target}-seq-{seq}"), seq, Init::Decode(r2.bytes())));
        }
    }
    // decoded records whose OWN key entry is in the 65-byte uncompressed form (the decoder accepts it; every update
    // rewrites it compressed, 32 bytes shorter), small and near the size limit
    if scheme == Scheme::Secp && !cfg!(miri) {
        if let Some((_, u)) = crate::refimpl::sig::secp_normalise(&key.pub_bytes()) {
            let mut unc = vec![4u8];
            unc.extend_from_slice(&u);
            for (target, seq) in [(0usize, 3u64), (286, 9), (299, 300)] {
                let mut rec = Rec::minimal(key, seq);
                rec.map.insert(b"secp256k1".to_vec(), Item::S(unc.clone()));
                rec.map.insert(b"udp".to_vec(), Item::S(vec![0x76, 0x5f]));
                let rec = if target == 0 { Some(rec) } else { gen::pad_to(&rec, b"pad", target) };
                if let Some(r2) = rec {
                    v.push((format!("decoded-uncompressed-key-{target}"), seq, Init::Decode(r2.bytes())));
                }
            }
        }
    }
    // a decoded record with nested list values and both families
    {
        let mut rec = Rec::minimal(key, 41);
        rec.map.insert(b"ip6".to_vec(), Item::S(vec![0xaa; 16]));
        rec.map.insert(b"tcp6".to_vec(), Item::S(vec![0x01, 0x00]));
        rec.map.insert(b"eth2".to_vec(), Item::L(vec![Item::S(vec![1, 2]), Item::L(vec![])]));
        rec.map.insert(b"x".to_vec(), Item::S(vec![]));
        v.push(("decoded-nested".into(), 41, Init::Decode(rec.bytes())));
    }
    v
}

pub fn mk_history(scheme: Scheme, own: u64, other: u64, init: &Init, steps: Vec<Step>) -> History {
    History { scheme, own, other, init: init.clone(), steps, fault: None }
}

// ---------------------------------------------------------------------------------------------
// random histories
// ---------------------------------------------------------------------------------------------
pub fn random_op(r: &mut impl RngCore, alpha: &[Op], scheme: Scheme) -> Op {
    if below(r, 3) != 0 {
        return pick(r, alpha).clone();
    }
    let port = |r: &mut dyn RngCore| -> u16 {
        if r.next_u32() % 2 == 0 {
            gen::PORT_EDGES[(r.next_u32() % 9) as usize]
        } else {
            r.next_u32() as u16
        }
    };
    let ip = |r: &mut dyn RngCore| -> IpAddr {
        if r.next_u32() % 4 == 0 {
            // special forms a conversion or canonicalisation could mishandle
            const SPECIAL: [&str; 14] = ["::ffff:1.2.3.4", "::ffff:0.0.0.0", "::ffff:255.255.255.255", "::", "::1", "::5.6.7.8", "64:ff9b::102:304",
                "ff02::1", "fe80::1", "2002:c000:204::", "0.0.0.0", "255.255.255.255", "127.0.0.1", "224.0.0.1"];
            return SPECIAL[(r.next_u32() % 14) as usize].parse().unwrap();
        }
        if r.next_u32() % 2 == 0 {
            let mut a = [0u8; 4];
            r.fill_bytes(&mut a);
            IpAddr::V4(a.into())
        } else {
            let mut a = [0u8; 16];
            r.fill_bytes(&mut a);
            IpAddr::V6(a.into())
        }
    };
    let key = |r: &mut dyn RngCore| -> Vec<u8> {
        const KS: [&[u8]; 16] = [b"x", b"y", b"pad", b"eth2", b"a", b"zz", b"tcp", b"udp", b"ip", b"ip6", b"client", b"id", b"quic", b"quic6", b"eth", b"snap"];
        KS[(r.next_u32() % 16) as usize].to_vec()
    };
    match below(r, 14) {
        0 => Op::SetSeq(if below(r, 2) == 0 { *pick(r, &gen::SEQ_EDGES) } else { r.next_u64() >> below(r, 64) }),
        1 => {
            let n = below(r, 80) as usize;
            Op::Insert(key(r), Val::B(rand_bytes(r, n)))
        }
        2 => Op::Insert(key(r), Val::U64(r.next_u64() >> below(r, 64))),
        3 => {
            let n = below(r, 12) as usize;
            Op::InsertRaw(key(r), rand_bytes(r, n))
        }
        4 => Op::InsertRaw(key(r), rlp::enc_item(&gen::random_tree(r, 2))),
        5 => Op::SetIp(ip(r)),
        6 => match below(r, 4) {
            0 => Op::SetUdp4(port(r)),
            1 => Op::SetUdp6(port(r)),
            2 => Op::SetTcp4(port(r)),
            _ => Op::SetTcp6(port(r)),
        },
        7 => Op::SetUdpSocket(SocketAddr::new(ip(r), port(r))),
        8 => Op::SetTcpSocket(SocketAddr::new(ip(r), port(r))),
        9 => Op::RemoveKey(key(r)),
        10 => {
            // grow towards the size limit
            let n = 20 + below(r, 120) as usize;
            Op::Insert(b"pad".to_vec(), Val::B(vec![0x5a; n]))
        }
        11 => {
            let nrm = below(r, 3);
            let nin = below(r, 3);
            let rm = (0..nrm).map(|_| key(r)).collect();
            let ins = (0..nin)
                .map(|_| {
                    let k = key(r);
                    let n = below(r, 20) as usize;
                    (k, rand_bytes(r, n))
                })
                .collect();
            Op::RemoveInsert(rm, ins)
        }
        12 => Op::Insert(scheme.enr_key().to_vec(), Val::B(rand_bytes(r, 33))),
        _ => Op::SetClientInfo(crate::gen::random_string(r), "v".into(), if below(r, 2) == 0 { None } else { Some("b".into()) }),
    }
}

pub fn random_history(r: &mut impl RngCore, scheme: Scheme, len: usize) -> History {
    let own = 1000 + below(r, 4);
    // one history in five re-keys between a key and its negation
    let other = if below(r, 5) == 0 { own | (1u64 << 63) } else { 2000 + below(r, 4) };
    let own_pub = own_ref(scheme, own).pub_bytes();
    let other_pub = own_ref(scheme, other).pub_bytes();
    let ins = inits(scheme, own);
    let (_, seq, init) = pick(r, &ins).clone();
    let alpha = alphabet(scheme, seq, &own_pub, &other_pub);
    let mut steps = Vec::with_capacity(len);
    // phases of re-keying: mostly own, sometimes a run of other
    let mut signer = Signer::Own;
    for _ in 0..len {
        if below(r, 12) == 0 {
            signer = if signer == Signer::Own { Signer::Other } else { Signer::Own };
        }
        steps.push(Step { op: random_op(r, &alpha, scheme), signer });
    }
    if below(r, 4) == 0 {
        // ends with a cross-scheme step (only CombinedKey histories have such a key; elsewhere it is skipped)
        let op = random_op(r, &alpha, scheme);
        steps.push(Step { op, signer: Signer::Alt });
    }
    History { scheme, own, other, init, steps, fault: None }
}
