//! enrmon — runtime monitors for the `enr` crate (see /verif/DESIGN.md).
#![allow(clippy::too_many_arguments, clippy::type_complexity)]

mod dec;
mod decmon;
mod gen;
mod hist;
mod keys;
mod model;
mod obs;
mod plans;
mod props;
mod props_hist;
mod props_misc;
mod refimpl;
mod replay;
mod report;
mod selftest;
mod util;

use report::Ctx;
use std::collections::HashMap;

fn usage() -> ! {
    eprintln!("usage: enrmon worker <Cxx> --tier quick|thorough --seed N --shard I --nshards N --out FILE [--trace FILE] [--scale F] [--budget SECS] [--layer NAME]\n       enrmon replay <file>\n       enrmon selftest");
    std::process::exit(3);
}

fn main() {
    let args: Vec<String> = std::env::args().collect();
    if args.len() < 2 {
        usage();
    }
    util::install_panic_hook();
    match args[1].as_str() {
        "selftest" => match selftest::run() {
            Ok(()) => println!("selftest ok"),
            Err(e) => {
                println!("SELFTEST-FAILED {e}");
                std::process::exit(2);
            }
        },
        "worker" => {
            if args.len() < 3 {
                usage();
            }
            let prop = args[2].clone();
            let mut kv: HashMap<String, String> = HashMap::new();
            let mut i = 3;
            while i + 1 < args.len() {
                kv.insert(args[i].trim_start_matches("--").to_string(), args[i + 1].clone());
                i += 2;
            }
            let get = |k: &str, d: &str| kv.get(k).cloned().unwrap_or_else(|| d.to_string());
            let tier = get("tier", "quick");
            let seed: u64 = get("seed", "1").parse().unwrap_or(1);
            let shard: u64 = get("shard", "0").parse().unwrap_or(0);
            let nshards: u64 = get("nshards", "1").parse().unwrap_or(1);
            let budget: f64 = get("budget", if tier == "quick" { "45" } else { "480" }).parse().unwrap_or(45.0);
            let mut ctx = Ctx::new(&prop, &tier, seed, shard, nshards, budget);
            ctx.scale = get("scale", "1").parse().unwrap_or(1.0);
            ctx.layer = get("layer", "release");
            if let Some(t) = kv.get("trace") {
                ctx.trace = std::fs::File::create(t).ok();
            }
            if let Err(e) = selftest::run() {
                println!("SELFTEST-FAILED {e}");
                std::process::exit(2);
            }
            // odd shards run with a logger installed at Trace level (arguments of the library's log macros are
            // evaluated only then), even shards without one, like the library's own tests
            if shard % 2 == 1 {
                struct Sink;
                impl log::Log for Sink {
                    fn enabled(&self, _: &log::Metadata) -> bool {
                        true
                    }
                    fn log(&self, r: &log::Record) {
                        let _ = format!("{}", r.args());
                    }
                    fn flush(&self) {}
                }
                static SINK: Sink = Sink;
                let _ = log::set_logger(&SINK);
                log::set_max_level(log::LevelFilter::Trace);
                ctx.notes.push("logger installed at Trace level".into());
            }
            props::run(&mut ctx);
            let out = get("out", "/dev/stdout");
            let js = ctx.to_json();
            if out != "/dev/stdout" {
                let _ = ctx.write_distinct(&format!("{out}.distinct"));
                let _ = ctx.write_pytrace(&format!("{out}.pytrace.jsonl"));
            }
            std::fs::write(&out, serde_json::to_string(&js).unwrap()).expect("write report");
        }
        "probe" => {
            use std::time::Instant;
            let t = Instant::now();
            let pool = gen::key_pool(refimpl::sig::Scheme::Toy, 7);
            eprintln!("key_pool {:?}", t.elapsed());
            let mut r = util::rng_for(0, &["wdec-fixed"], 0);
            let rec = gen::random_valid(&mut r, &pool);
            eprintln!("random_valid {:?}", t.elapsed());
            let bytes = rec.bytes();
            eprintln!("bytes {:?} len {}", t.elapsed(), bytes.len());
            for kt in dec::kts() {
                let rd = refimpl::decode::ref_decode(&bytes, kt);
                eprintln!("ref_decode {} {} {:?}", kt.name(), rd.tag(), t.elapsed());
                let o = dec::decode_kt(kt, &bytes);
                eprintln!("decode {} {} {:?}", kt.name(), o.res.is_ok(), t.elapsed());
            }
            let mut ctx = Ctx::new("C03", "quick", 1, 0, 1, 1000.0);
            decmon::judge_input(&mut ctx, "valid", &bytes, decmon::JudgeOpts { text: false });
            eprintln!("judge_input no text {:?}", t.elapsed());
            decmon::judge_input(&mut ctx, "valid", &bytes, decmon::JudgeOpts { text: true });
            eprintln!("judge_input text {:?}", t.elapsed());
            let m = gen::structural_mutants(&rec, &mut r);
            eprintln!("structural_mutants {} {:?}", m.len(), t.elapsed());
        }
        "sanitizer-selftest" => {
            // deliberate one-byte heap over-read, used only by tools/validate_sanitizers.py to show that each
            // sanitizer layer reports and that the supervisor would see it
            let v = vec![1u8; 16];
            let off: usize = args.get(2).and_then(|a| a.parse().ok()).unwrap_or(16);
            let x = unsafe { std::ptr::read_volatile(v.as_ptr().add(off)) };
            println!("read {x}");
        }
        "replay" => {
            if args.len() < 3 {
                usage();
            }
            if let Err(e) = selftest::run() {
                println!("SELFTEST-FAILED {e}");
                std::process::exit(2);
            }
            std::process::exit(replay::run(&args[2]));
        }
        _ => usage(),
    }
}
