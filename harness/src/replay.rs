//! Re-execute one witness (input / text / history / stream) with the same monitors.

use crate::decmon::{judge_input, JudgeOpts};
use crate::hist::{History, RunOpts};
use crate::refimpl::decode::KT;
use crate::report::Ctx;
use crate::util::unhex;
use serde_json::Value;

fn kt_of(name: &str) -> Option<KT> {
    Some(match name {
        "k256" => KT::K256,
        "libsecp256k1" => KT::Libsecp,
        "ed25519" => KT::Ed,
        "combined" => KT::Comb,
        "toy" => KT::Toy,
        _ => return None,
    })
}

pub fn run(path: &str) -> i32 {
    let txt = match std::fs::read_to_string(path) {
        Ok(t) => t,
        Err(e) => {
            println!("INCONCLUSIVE cannot read {path}: {e}");
            return 2;
        }
    };
    let w: Value = match serde_json::from_str(&txt) {
        Ok(v) => v,
        Err(e) => {
            println!("INCONCLUSIVE bad witness: {e}");
            return 2;
        }
    };
    let prop = w["prop"].as_str().unwrap_or("C03").to_string();
    let r = &w["replay"];
    let mut ctx = Ctx::new(&prop, "quick", 0, 0, 1, 600.0);
    match r["kind"].as_str().unwrap_or("") {
        "input" => {
            let bytes = unhex(r["hex"].as_str().unwrap_or("")).unwrap_or_default();
            judge_input(&mut ctx, r["class"].as_str().unwrap_or("replay"), &bytes, JudgeOpts { text: true });
        }
        "text" => {
            let s = r["text"].as_str().unwrap_or("").to_string();
            for kt in crate::dec::kts() {
                let o = if r["entry"] == "json" { crate::dec::json_kt(kt, &serde_json::to_string(&s).unwrap()) } else { crate::dec::parse_kt(kt, &s) };
                println!("{}: {:?} panic={:?}", kt.name(), o.res.as_ref().map(|o| o.seq).map_err(|e| e.clone()), o.panic);
                if let Some(p) = o.panic {
                    ctx.violate("C03", "panic", "replay", || p.clone(), || r.clone());
                }
            }
            // C12 judgement needs the mutation oracle: re-run through judge_text is done by the check itself
            let body = s.strip_prefix("enr:").unwrap_or(&s);
            if let Some(bytes) = crate::refimpl::b64::decode_strict(body) {
                judge_input(&mut ctx, "replay-text", &bytes, JudgeOpts { text: true });
            }
            crate::props_misc::replay_text(&mut ctx, &s, r["entry"] == "json");
        }
        "history" => {
            let h: History = match serde_json::from_value(r["history"].clone()) {
                Ok(h) => h,
                Err(e) => {
                    println!("INCONCLUSIVE bad history: {e}");
                    return 2;
                }
            };
            let kt = match kt_of(r["kt"].as_str().unwrap_or("")) {
                Some(k) => k,
                None => return 2,
            };
            if kt == KT::Libsecp && !cfg!(feature = "libsecp") {
                println!("INCONCLUSIVE witness needs the cfg-B build");
                return 2;
            }
            let faulty = r["faulty"].as_bool().unwrap_or(false);
            crate::plans::run_hist_kt(&mut ctx, kt, faulty, &h, &RunOpts { full_state_checks: true, keep_states: false });
        }
        "stream" => {
            let item = unhex(r["item"].as_str().unwrap_or("")).unwrap_or_default();
            let suffix = unhex(r["suffix"].as_str().unwrap_or("")).unwrap_or_default();
            crate::props_misc::replay_stream(&mut ctx, &item, &suffix);
        }
        "nodeid-parse" => {
            let b = unhex(r["hex"].as_str().unwrap_or("")).unwrap_or_default();
            let res = enr::NodeId::parse(&b);
            println!("NodeId::parse of {} bytes: {:?}", b.len(), res.is_ok());
            if (b.len() == 32) != res.is_ok() {
                ctx.violate("C16", "parse-length-not-strict", "replay", || format!("{} bytes accepted={}", b.len(), res.is_ok()), || r.clone());
            }
        }
        "nodeid" => {
            // a JSON string: accepted exactly when it is 64 hex digits with an optional single 0x prefix
            if let Some(sv) = r["input"].as_str() {
                let body = sv.strip_prefix("0x").unwrap_or(sv);
                let want = body.len() == 64 && body.bytes().all(|c| c.is_ascii_hexdigit());
                let got = serde_json::from_str::<enr::NodeId>(&serde_json::to_string(sv).unwrap());
                println!("NodeId from {sv:?}: accepted={} expected={want}", got.is_ok());
                if got.is_ok() != want {
                    ctx.violate("C16", if want { "valid-hex-rejected" } else { "malformed-hex-accepted" }, "replay", || sv.to_string(), || r.clone());
                }
                if let (true, Ok(id)) = (want, got) {
                    if Some(id.raw().to_vec()) != unhex(body) {
                        ctx.violate("C16", "deserialised-id-differs", "replay", || sv.to_string(), || r.clone());
                    }
                    if want && body.len() == 64 {
                        let raw = id.raw();
                        let h = crate::util::hex(&raw);
                        if format!("{id:?}") != format!("0x{h}") || format!("{id}") != format!("0x{}..{}", &h[..4], &h[60..]) || serde_json::to_string(&id).unwrap_or_default() != format!("\"0x{h}\"") {
                            ctx.violate("C16", "display-form", "replay", || format!("{id} / {id:?}"), || r.clone());
                        }
                        if format!("{id:#?}") != format!("0x{h}") || format!("{:#?}", Some(id)).matches("0x").count() != 1 {
                            ctx.violate("C16", "debug-form", "replay", || format!("{id:#?}"), || r.clone());
                        }
                        let mut inv = raw;
                        inv.iter_mut().for_each(|b| *b ^= 0xff);
                        let mut two = raw;
                        two[3] ^= 0x5a;
                        two[17] ^= 0x5a;
                        if id == inv || id == two || !(id == raw) {
                            ctx.violate("C16", "id-equals-other-bytes", "replay", || h.clone(), || r.clone());
                        }
                    }
                }
            }
        }
        "key-import" => {
            let b = unhex(r["hex"].as_str().unwrap_or("")).unwrap_or_default();
            crate::props_misc::replay_key_import(&mut ctx, r["which"].as_str().unwrap_or("secp"), &b);
        }
        "stream-seq" => {
            let recs: Vec<Vec<u8>> = r["records"].as_array().map(|a| a.iter().filter_map(|x| x.as_str().and_then(unhex)).collect()).unwrap_or_default();
            crate::props_misc::replay_stream_seq(&mut ctx, &recs);
        }
        k => {
            println!("INCONCLUSIVE replay kind {k:?}: re-run the check itself (./check {prop} quick) to reproduce");
            return 2;
        }
    }
    let mut hit = false;
    for v in &ctx.violations {
        println!("{} {} :: {}", v.prop, v.sig, v.detail);
        if v.prop == prop {
            hit = true;
        }
    }
    if hit {
        println!("VIOLATION property={prop} replay={path}");
        1
    } else {
        println!("replay: no violation of {prop} reproduced");
        0
    }
}
