//! MapModel / SizeModel (DESIGN.md §4.6): a plain sorted-map model of the builder and of every
//! public mutator, predicting pairs, return values and the set of admissible error kinds.
//! Written against RefRLP / RefSig only.

use crate::refimpl::rlp;
use crate::refimpl::sig::{self, PubValidity, Scheme};
use serde::{Deserialize, Serialize};
use std::collections::BTreeMap;
use std::net::{IpAddr, Ipv4Addr, Ipv6Addr, SocketAddr};

pub type Pairs = BTreeMap<Vec<u8>, Vec<u8>>;

#[derive(Clone, Debug, PartialEq, Eq, Serialize, Deserialize, Hash)]
pub enum Val {
    B(Vec<u8>),
    U8(u8),
    U16(u16),
    U64(u64),
    Str(String),
    L(Vec<Vec<u8>>),
    LL(Vec<Vec<Vec<u8>>>),
    /// a whole record (the EIP-778 example) passed as the value: `insert(k, &enr, key)`
    Rec,
    /// a list of two records passed as the value
    RecList,
}

pub const EXAMPLE_RECORD_HEX: &str = "f884b8407098ad865b00a582051940cb9cf36836572411a47278783077011599ed5cd16b76f2635f4e234738f30813a89eb9137e3e3df5266e3a1f11df72ecf1145ccb9c01826964827634826970847f00000189736563703235366b31a103ca634cae0d49acb401d8a4c6b6fe8c55b70d115bf400769cc1400f3258cd31388375647082765f";

impl Val {
    /// canonical RLP by RefRLP
    pub fn canonical(&self) -> Vec<u8> {
        match self {
            Val::B(b) => rlp::enc_str(b),
            Val::U8(v) => rlp::enc_uint(*v as u64),
            Val::U16(v) => rlp::enc_uint(*v as u64),
            Val::U64(v) => rlp::enc_uint(*v),
            Val::Str(s) => rlp::enc_str(s.as_bytes()),
            Val::L(l) => {
                let mut p = Vec::new();
                for i in l {
                    p.extend_from_slice(&rlp::enc_str(i));
                }
                rlp::enc_list_payload(&p)
            }
            Val::LL(ll) => {
                let mut p = Vec::new();
                for l in ll {
                    let mut q = Vec::new();
                    for i in l {
                        q.extend_from_slice(&rlp::enc_str(i));
                    }
                    p.extend_from_slice(&rlp::enc_list_payload(&q));
                }
                rlp::enc_list_payload(&p)
            }
            Val::Rec => crate::util::unhex(EXAMPLE_RECORD_HEX).unwrap(),
            Val::RecList => {
                let r = crate::util::unhex(EXAMPLE_RECORD_HEX).unwrap();
                rlp::enc_list_payload(&[r.clone(), r].concat())
            }
        }
    }
}

#[derive(Clone, Copy, Debug, PartialEq, Eq, Serialize, Deserialize, Hash)]
pub enum Signer {
    Own,
    Other,
    /// (CombinedKey only, only as the LAST step of a history) a key of the other signature scheme: outside the
    /// quantifier of C05/C06/C07/C08/C10, but the size bound, size() and totality still apply
    Alt,
}

#[derive(Clone, Debug, PartialEq, Eq, Serialize, Deserialize, Hash)]
pub enum PkArg {
    /// the public key of the key that signs this call
    OfSigner,
    /// the public key of the key that does not sign this call
    OfNonSigner,
    /// (CombinedKey only) a public key of the OTHER signature scheme; elsewhere the same as OfNonSigner
    OtherScheme,
}

#[derive(Clone, Debug, PartialEq, Eq, Serialize, Deserialize, Hash)]
pub enum Op {
    SetSeq(u64),
    Insert(Vec<u8>, Val),
    InsertRaw(Vec<u8>, Vec<u8>),
    /// insert_raw_rlp of `depth` nested lists (generated at call time: the value can be megabytes)
    InsertRawNested(Vec<u8>, u32),
    SetIp(IpAddr),
    SetUdp4(u16),
    SetUdp6(u16),
    SetTcp4(u16),
    SetTcp6(u16),
    RemoveUdp4,
    RemoveUdp6,
    RemoveTcp,
    RemoveTcp6,
    SetClientInfo(String, String, Option<String>),
    SetUdpSocket(SocketAddr),
    SetTcpSocket(SocketAddr),
    RemoveUdpSocket,
    RemoveUdp6Socket,
    RemoveTcpSocket,
    RemoveTcp6Socket,
    RemoveKey(Vec<u8>),
    RemoveInsert(Vec<Vec<u8>>, Vec<(Vec<u8>, Vec<u8>)>),
    SetPublicKey(PkArg),
}

impl Op {
    pub fn name(&self) -> &'static str {
        match self {
            Op::SetSeq(_) => "set_seq",
            Op::Insert(..) => "insert",
            Op::InsertRaw(..) | Op::InsertRawNested(..) => "insert_raw_rlp",
            Op::SetIp(_) => "set_ip",
            Op::SetUdp4(_) => "set_udp4",
            Op::SetUdp6(_) => "set_udp6",
            Op::SetTcp4(_) => "set_tcp4",
            Op::SetTcp6(_) => "set_tcp6",
            Op::RemoveUdp4 => "remove_udp4",
            Op::RemoveUdp6 => "remove_udp6",
            Op::RemoveTcp => "remove_tcp",
            Op::RemoveTcp6 => "remove_tcp6",
            Op::SetClientInfo(..) => "set_client_info",
            Op::SetUdpSocket(_) => "set_udp_socket",
            Op::SetTcpSocket(_) => "set_tcp_socket",
            Op::RemoveUdpSocket => "remove_udp_socket",
            Op::RemoveUdp6Socket => "remove_udp6_socket",
            Op::RemoveTcpSocket => "remove_tcp_socket",
            Op::RemoveTcp6Socket => "remove_tcp6_socket",
            Op::RemoveKey(_) => "remove_key",
            Op::RemoveInsert(..) => "remove_insert",
            Op::SetPublicKey(_) => "set_public_key",
        }
    }
    /// mutator family for the C06 gate
    pub fn family(&self) -> &'static str {
        match self {
            Op::SetSeq(_) => "set_seq",
            Op::Insert(..) | Op::InsertRaw(..) | Op::InsertRawNested(..) | Op::SetClientInfo(..) | Op::SetPublicKey(_) => "insert",
            Op::SetIp(_) | Op::SetUdp4(_) | Op::SetUdp6(_) | Op::SetTcp4(_) | Op::SetTcp6(_) => "typed-setter",
            Op::RemoveUdp4 | Op::RemoveUdp6 | Op::RemoveTcp | Op::RemoveTcp6 | Op::RemoveKey(_) => "remove_key",
            Op::SetUdpSocket(_) | Op::SetTcpSocket(_) => "set_socket",
            Op::RemoveUdpSocket | Op::RemoveUdp6Socket | Op::RemoveTcpSocket | Op::RemoveTcp6Socket | Op::RemoveInsert(..) => "remove_insert",
        }
    }
}

#[derive(Clone, Debug, PartialEq, Eq, Serialize, Deserialize, Hash)]
pub struct Step {
    pub op: Op,
    pub signer: Signer,
}

#[derive(Clone, Debug, PartialEq, Eq, Serialize, Deserialize, Hash)]
pub enum BEntry {
    Seq(u64),
    Ip(IpAddr),
    Ip4([u8; 4]),
    Ip6([u8; 16]),
    Tcp4(u16),
    Tcp6(u16),
    Udp4(u16),
    Udp6(u16),
    Add(Vec<u8>, Val),
    AddRaw(Vec<u8>, Vec<u8>),
    AddRawNested(Vec<u8>, u32),
    Client(String, String, Option<String>),
}

#[derive(Clone, Copy, Debug, PartialEq, Eq, Hash, PartialOrd, Ord)]
pub enum Cause {
    Size,
    /// builder only: result within 8 bytes of the limit
    SizeSlack,
    SeqOverflow,
    IllTyped,
    Malformed,
    UnsupportedId,
    SignerFault,
}

impl Cause {
    pub fn name(self) -> &'static str {
        match self {
            Cause::Size => "size",
            Cause::SizeSlack => "size-slack",
            Cause::SeqOverflow => "seq-overflow",
            Cause::IllTyped => "ill-typed",
            Cause::Malformed => "malformed-rlp",
            Cause::UnsupportedId => "unsupported-id",
            Cause::SignerFault => "signer-fault",
        }
    }
    /// error kinds (names of `enr::Error` variants) that match this cause
    pub fn kinds(self) -> &'static [&'static str] {
        match self {
            Cause::Size | Cause::SizeSlack => &["ExceedsMaxSize"],
            Cause::SeqOverflow => &["SequenceNumberTooHigh"],
            Cause::IllTyped | Cause::Malformed => &["InvalidRlpData"],
            Cause::UnsupportedId => &["UnsupportedIdentityScheme", "InvalidRlpData"],
            Cause::SignerFault => &["SigningError"],
        }
    }
}

#[derive(Clone, Debug, PartialEq, Eq)]
pub enum Ret {
    Unit,
    /// previous raw value; None inside = wildcard not used
    PrevRaw(Option<Vec<u8>>),
    PrevPort(Option<u16>),
    PrevIp(Option<IpAddr>),
    /// (removed, inserted) previous raw values; `None` outer = wildcard at that position
    RI(Vec<Option<Option<Vec<u8>>>>, Vec<Option<Option<Vec<u8>>>>),
    /// the model does not constrain the return value
    Any,
}

#[derive(Clone, Debug)]
pub struct Pred {
    pub seq: u64,
    pub pairs: Pairs,
    pub ret: Ret,
    pub must: Vec<Cause>,
    pub may: Vec<Cause>,
    /// human-readable note on which corner made `may` non-empty
    pub corner: Option<&'static str>,
}

/// the signer as the model sees it
#[derive(Clone, Debug)]
pub struct MSigner {
    pub scheme: Scheme,
    pub pubkey: Vec<u8>,
    /// fixed signature length (built-in: 64); None => toy (computed from the content)
    pub sig_len: Option<usize>,
}

impl MSigner {
    pub fn slot(&self) -> &'static [u8] {
        self.scheme.enr_key()
    }
    pub fn slot_raw(&self) -> Vec<u8> {
        rlp::enc_str(&self.pubkey)
    }
}

pub fn content_bytes(seq: u64, pairs: &Pairs) -> Vec<u8> {
    let mut p = rlp::enc_uint(seq);
    for (k, v) in pairs {
        p.extend_from_slice(&rlp::enc_str(k));
        p.extend_from_slice(v);
    }
    rlp::enc_list_payload(&p)
}

/// SizeModel: exact encoded size of [sig, seq, pairs] with RefRLP.
pub fn record_size(signer: &MSigner, seq: u64, pairs: &Pairs) -> usize {
    let content = content_bytes(seq, pairs);
    let h = rlp::header(&content).expect("own encoding");
    let payload_len = h.len;
    let sig_item = match signer.sig_len {
        Some(l) => rlp::enc_str(&vec![0x80u8; l]).len(),
        // (a one-byte toy signature below 0x80 is its own encoding)
        None => rlp::enc_str(&sig::toy_sig(&signer.pubkey, &content)).len(),
    };
    let total_payload = sig_item + payload_len;
    rlp::list_header_len(total_payload) + total_payload
}

#[derive(Clone, Copy, Debug, PartialEq, Eq)]
pub enum TJ {
    Ok,
    /// must be refused with one of these causes
    Bad(Cause),
    /// corner the statements do not fix
    Either(&'static str),
}

/// Typing of a raw value written under `key` by a call signed by `signer`.
pub fn type_judge(key: &[u8], raw: &[u8], signer: &MSigner) -> TJ {
    let hdr = match rlp::single_item(raw) {
        Some(h) => h,
        None => {
            // not exactly one strictly-framed item
            if key == signer.slot() || key == b"id" {
                // builder overwrites these; mutators overwrite the signer slot
                return if key == b"id" { TJ::Bad(Cause::UnsupportedId) } else { TJ::Either("value under the signer's own public-key key") };
            }
            return TJ::Bad(Cause::Malformed);
        }
    };
    let s = if hdr.list { None } else { Some(&raw[hdr.off..]) };
    if key == signer.slot() {
        return match s {
            Some(b) if b == signer.pubkey.as_slice() => TJ::Ok,
            _ => TJ::Either("value under the signer's own public-key key"),
        };
    }
    match key {
        b"id" => {
            if s == Some(b"v4") {
                TJ::Ok
            } else {
                TJ::Bad(Cause::UnsupportedId)
            }
        }
        b"tcp" | b"tcp6" | b"udp" | b"udp6" => {
            if rlp::as_uint(raw, 2).is_some() {
                TJ::Ok
            } else {
                TJ::Bad(Cause::IllTyped)
            }
        }
        b"ip" => {
            if s.map(|b| b.len()) == Some(4) {
                TJ::Ok
            } else {
                TJ::Bad(Cause::IllTyped)
            }
        }
        b"ip6" => {
            if s.map(|b| b.len()) == Some(16) {
                TJ::Ok
            } else {
                TJ::Bad(Cause::IllTyped)
            }
        }
        b"secp256k1" => match s {
            None => TJ::Bad(Cause::IllTyped),
            Some(b) => match sig::secp_pub_validity(b) {
                PubValidity::Valid(_) => {
                    if signer.scheme == Scheme::Ed {
                        // a CombinedKey record signed by an ed25519 key would start verifying against this entry
                        TJ::Either("foreign valid secp256k1 key in a record signed by another scheme")
                    } else {
                        TJ::Ok
                    }
                }
                _ => TJ::Either("secp256k1 entry that is a string but not a 33-byte valid key"),
            },
        },
        b"ed25519" => match s {
            None => TJ::Bad(Cause::IllTyped),
            Some(b) => match sig::ed_pub_validity(b) {
                PubValidity::Valid(_) => TJ::Ok,
                _ => TJ::Either("ed25519 entry that is a string but not a valid key"),
            },
        },
        _ => {
            if hdr.list && !rlp::wellformed_deep(raw) {
                TJ::Either("list value whose inner bytes are not well-formed RLP")
            } else {
                TJ::Ok
            }
        }
    }
}

pub struct ModelCtx<'a> {
    pub signer: &'a MSigner,
    pub nonsigner: &'a MSigner,
    /// a key of the other scheme (CombinedKey histories only)
    pub alt: Option<&'a MSigner>,
}

fn ip_raw(ip: &IpAddr) -> (&'static [u8], Vec<u8>) {
    match ip {
        IpAddr::V4(a) => (b"ip", rlp::enc_str(&a.octets())),
        IpAddr::V6(a) => (b"ip6", rlp::enc_str(&a.octets())),
    }
}

fn prev_ip(key: &[u8], prev: Option<&Vec<u8>>) -> Option<IpAddr> {
    let s = rlp::as_str(prev?)?;
    if key == b"ip" && s.len() == 4 {
        let mut a = [0u8; 4];
        a.copy_from_slice(s);
        Some(IpAddr::V4(Ipv4Addr::from(a)))
    } else if key == b"ip6" && s.len() == 16 {
        let mut a = [0u8; 16];
        a.copy_from_slice(s);
        Some(IpAddr::V6(Ipv6Addr::from(a)))
    } else {
        None
    }
}

/// Predict the effect of one mutator call on (seq, pairs).
pub fn predict(seq: u64, pairs: &Pairs, op: &Op, m: &ModelCtx) -> Pred {
    let signer = m.signer;
    let mut must: Vec<Cause> = Vec::new();
    let mut may: Vec<Cause> = Vec::new();
    let mut corner = None;
    let mut work = pairs.clone();
    let mut ret = Ret::Unit;
    let mut new_seq = seq.wrapping_add(1);
    let mut content_update = true;

    let mut judge = |key: &[u8], raw: &[u8], must: &mut Vec<Cause>, may: &mut Vec<Cause>| match type_judge(key, raw, signer) {
        TJ::Ok => {}
        TJ::Bad(c) => must.push(c),
        TJ::Either(why) => {
            corner = Some(why);
            // (SigningError: the library refuses to sign content that would not resolve to the signer's key)
            may.extend_from_slice(&[Cause::IllTyped, Cause::Malformed, Cause::UnsupportedId, Cause::SignerFault]);
        }
    };
    let mut insert = |work: &mut Pairs, key: &[u8], raw: Vec<u8>| -> Option<Vec<u8>> { work.insert(key.to_vec(), raw) };

    match op {
        Op::SetSeq(n) => {
            new_seq = *n;
            content_update = false;
        }
        Op::Insert(k, v) => {
            let raw = v.canonical();
            judge(k, &raw, &mut must, &mut may);
            let prev = insert(&mut work, k, raw);
            ret = if k.as_slice() == signer.slot() { Ret::Any } else { Ret::PrevRaw(prev) };
        }
        Op::InsertRaw(k, raw) => {
            judge(k, raw, &mut must, &mut may);
            let prev = insert(&mut work, k, raw.clone());
            ret = if k.as_slice() == signer.slot() { Ret::Any } else { Ret::PrevRaw(prev) };
        }
        Op::InsertRawNested(k, depth) => {
            let raw = rlp::nested_lists(*depth);
            judge(k, &raw, &mut must, &mut may);
            let prev = insert(&mut work, k, raw);
            ret = if k.as_slice() == signer.slot() { Ret::Any } else { Ret::PrevRaw(prev) };
        }
        Op::SetIp(ip) => {
            let (k, raw) = ip_raw(ip);
            let prev = insert(&mut work, k, raw);
            ret = Ret::PrevIp(prev_ip(k, prev.as_ref()));
        }
        Op::SetUdp4(p) | Op::SetUdp6(p) | Op::SetTcp4(p) | Op::SetTcp6(p) => {
            let k: &[u8] = match op {
                Op::SetUdp4(_) => b"udp",
                Op::SetUdp6(_) => b"udp6",
                Op::SetTcp4(_) => b"tcp",
                _ => b"tcp6",
            };
            let prev = insert(&mut work, k, rlp::enc_uint(*p as u64));
            ret = Ret::PrevPort(prev.and_then(|r| rlp::as_uint(&r, 2)).map(|v| v as u16));
        }
        Op::RemoveUdp4 => {
            work.remove(&b"udp"[..]);
        }
        Op::RemoveUdp6 => {
            work.remove(&b"udp6"[..]);
        }
        Op::RemoveTcp => {
            work.remove(&b"tcp"[..]);
        }
        Op::RemoveTcp6 => {
            work.remove(&b"tcp6"[..]);
        }
        Op::SetClientInfo(n, v, b) => {
            let mut l = vec![n.as_bytes().to_vec(), v.as_bytes().to_vec()];
            if let Some(b) = b {
                l.push(b.as_bytes().to_vec());
            }
            insert(&mut work, b"client", Val::L(l).canonical());
        }
        Op::SetUdpSocket(s) | Op::SetTcpSocket(s) => {
            let tcp = matches!(op, Op::SetTcpSocket(_));
            let (k, raw) = ip_raw(&s.ip());
            insert(&mut work, k, raw);
            let pk: &[u8] = match (s.is_ipv4(), tcp) {
                (true, true) => b"tcp",
                (true, false) => b"udp",
                (false, true) => b"tcp6",
                (false, false) => b"udp6",
            };
            insert(&mut work, pk, rlp::enc_uint(s.port() as u64));
        }
        Op::RemoveUdpSocket => {
            work.remove(&b"ip"[..]);
            work.remove(&b"udp"[..]);
        }
        Op::RemoveUdp6Socket => {
            work.remove(&b"ip6"[..]);
            work.remove(&b"udp6"[..]);
        }
        Op::RemoveTcpSocket => {
            work.remove(&b"ip"[..]);
            work.remove(&b"tcp"[..]);
        }
        Op::RemoveTcp6Socket => {
            work.remove(&b"ip6"[..]);
            work.remove(&b"tcp6"[..]);
        }
        Op::RemoveKey(k) => {
            work.remove(k.as_slice());
        }
        Op::RemoveInsert(rm, ins) => {
            let mut removed = Vec::new();
            for k in rm {
                removed.push(Some(work.remove(k.as_slice())));
            }
            let mut inserted = Vec::new();
            for (k, payload) in ins {
                let raw = rlp::enc_str(payload);
                judge(k, &raw, &mut must, &mut may);
                let prev = insert(&mut work, k, raw);
                if k.as_slice() == signer.slot() {
                    inserted.push(None);
                } else {
                    inserted.push(Some(prev));
                }
            }
            ret = Ret::RI(removed, inserted);
        }
        Op::SetPublicKey(which) => {
            let pk = match which {
                PkArg::OfSigner => signer,
                PkArg::OfNonSigner => m.nonsigner,
                PkArg::OtherScheme => m.alt.unwrap_or(m.nonsigner),
            };
            let raw = rlp::enc_str(&pk.pubkey);
            judge(pk.slot(), &raw, &mut must, &mut may);
            insert(&mut work, pk.slot(), raw);
        }
    }
    // the signer's key is always (re-)written
    work.insert(signer.slot().to_vec(), signer.slot_raw());
    // identity scheme must still be v4
    match work.get(&b"id"[..]) {
        Some(r) if rlp::as_str(r) == Some(b"v4") => {}
        _ => must.push(Cause::UnsupportedId),
    }
    if content_update && seq == u64::MAX {
        must.push(Cause::SeqOverflow);
        // there is no incremented number to size the result with; with a number as long as the
        // current one the result may be too large as well ("when several apply, any of them")
        if record_size(signer, u64::MAX, &work) > 300 {
            may.push(Cause::Size);
        }
    } else if record_size(signer, new_seq, &work) > 300 {
        must.push(Cause::Size);
    }
    if signer.sig_len.is_none() && !must.contains(&Cause::Size) {
        // variable-length signatures: the library sizes the candidate with the signature it holds at
        // that moment; the statements fix "refused exactly when exceeded" for 64-byte signatures only
        may.push(Cause::Size);
    }
    Pred { seq: new_seq, pairs: work, ret, must, may, corner }
}

/// Predict `Builder::build`.
pub fn predict_build(entries: &[BEntry], signer: &MSigner) -> Pred {
    let mut work: Pairs = BTreeMap::new();
    let mut seq = 1u64;
    for e in entries {
        match e {
            BEntry::Seq(n) => seq = *n,
            BEntry::Ip(ip) => {
                let (k, raw) = ip_raw(ip);
                work.insert(k.to_vec(), raw);
            }
            BEntry::Ip4(a) => {
                work.insert(b"ip".to_vec(), rlp::enc_str(a));
            }
            BEntry::Ip6(a) => {
                work.insert(b"ip6".to_vec(), rlp::enc_str(a));
            }
            BEntry::Tcp4(p) => {
                work.insert(b"tcp".to_vec(), rlp::enc_uint(*p as u64));
            }
            BEntry::Tcp6(p) => {
                work.insert(b"tcp6".to_vec(), rlp::enc_uint(*p as u64));
            }
            BEntry::Udp4(p) => {
                work.insert(b"udp".to_vec(), rlp::enc_uint(*p as u64));
            }
            BEntry::Udp6(p) => {
                work.insert(b"udp6".to_vec(), rlp::enc_uint(*p as u64));
            }
            BEntry::Add(k, v) => {
                work.insert(k.clone(), v.canonical());
            }
            BEntry::AddRaw(k, raw) => {
                work.insert(k.clone(), raw.clone());
            }
            BEntry::AddRawNested(k, depth) => {
                work.insert(k.clone(), rlp::nested_lists(*depth));
            }
            BEntry::Client(n, v, b) => {
                let mut l = vec![n.as_bytes().to_vec(), v.as_bytes().to_vec()];
                if let Some(b) = b {
                    l.push(b.as_bytes().to_vec());
                }
                work.insert(b"client".to_vec(), Val::L(l).canonical());
            }
        }
    }
    let mut must = Vec::new();
    let mut may = Vec::new();
    let mut corner = None;
    for (k, raw) in &work {
        if k.as_slice() == b"id" || k.as_slice() == signer.slot() {
            // overwritten by build(); whether a bad value here is refused first is not fixed
            if !(k.as_slice() == b"id" && rlp::as_str(raw) == Some(b"v4")) && type_judge(k, raw, signer) != TJ::Ok {
                corner = Some("builder value under id / the signer's key, which build() overwrites");
                may.extend_from_slice(&[Cause::IllTyped, Cause::Malformed, Cause::UnsupportedId]);
            }
            continue;
        }
        match type_judge(k, raw, signer) {
            TJ::Ok => {}
            TJ::Bad(c) => must.push(if c == Cause::UnsupportedId { Cause::IllTyped } else { c }),
            TJ::Either(w) => {
                corner = Some(w);
                may.extend_from_slice(&[Cause::IllTyped, Cause::Malformed, Cause::SignerFault]);
            }
        }
    }
    work.insert(b"id".to_vec(), rlp::enc_str(b"v4"));
    work.insert(signer.slot().to_vec(), signer.slot_raw());
    let size = record_size(signer, seq, &work);
    if size > 300 {
        must.push(Cause::Size);
    } else if size >= 292 || signer.sig_len.is_none() {
        may.push(Cause::SizeSlack);
    }
    Pred { seq, pairs: work, ret: Ret::Unit, must, may, corner }
}
