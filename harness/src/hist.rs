//! W-HIST executor: runs a call history against the real library, recording one event per call at the
//! client boundary, and runs every history-level monitor (C03..C10, C12, C14, C15) after every step.

use crate::dec::{decode_as, json_as, parse_as};
use crate::decmon::{authentic, check_node_id, judge_input, JudgeOpts};
use crate::keys::{secret_from, KeyKind};
use crate::model::*;
use crate::obs::{observe, observe_core, sweep, Obs};
use crate::refimpl::b64;
use crate::refimpl::rlp;
use crate::refimpl::sig::{self, RefKey, Scheme};
use crate::report::Ctx;
use crate::util::{guard, h64, hex, panic_sig};
use bytes::Bytes;
use enr::{Enr, EnrKey, EnrPublicKey};
use serde::{Deserialize, Serialize};
use serde_json::json;
use std::net::IpAddr;

#[derive(Clone, Debug, PartialEq, Eq, Serialize, Deserialize, Hash)]
pub enum Init {
    Build(Vec<BEntry>),
    /// a record signed by RefSig with the history's own key
    Decode(Vec<u8>),
}

#[derive(Clone, Debug, PartialEq, Eq, Serialize, Deserialize, Hash)]
pub struct History {
    pub scheme: Scheme,
    pub own: u64,
    pub other: u64,
    pub init: Init,
    pub steps: Vec<Step>,
    /// (which key, 1-based index of that key's signing call that fails)
    pub fault: Option<(Signer, u64)>,
}

#[derive(Clone, Debug, PartialEq, Eq)]
pub enum RetObs {
    Unit,
    PrevRaw(Option<Vec<u8>>),
    PrevPort(Option<u16>),
    PrevIp(Option<IpAddr>),
    RI(Vec<Option<Vec<u8>>>, Vec<Option<Vec<u8>>>),
}

pub fn err_kind(e: &enr::Error) -> &'static str {
    match e {
        enr::Error::ExceedsMaxSize => "ExceedsMaxSize",
        enr::Error::SequenceNumberTooHigh => "SequenceNumberTooHigh",
        enr::Error::SigningError => "SigningError",
        enr::Error::UnsupportedIdentityScheme => "UnsupportedIdentityScheme",
        enr::Error::InvalidRlpData(_) => "InvalidRlpData",
    }
}

fn insert_val<K: EnrKey>(e: &mut Enr<K>, k: &[u8], v: &Val, key: &K) -> Result<Option<Bytes>, enr::Error> {
    match v {
        Val::B(b) => e.insert(k, &b.as_slice(), key),
        Val::U8(x) => e.insert(k, x, key),
        Val::U16(x) => e.insert(k, x, key),
        Val::U64(x) => e.insert(k, x, key),
        Val::Str(s) => e.insert(k, s, key),
        Val::L(l) => e.insert(k, &l.iter().map(|b| Bytes::from(b.clone())).collect::<Vec<Bytes>>(), key),
        Val::LL(ll) => e.insert(
            k,
            &ll.iter().map(|l| l.iter().map(|b| Bytes::from(b.clone())).collect::<Vec<Bytes>>()).collect::<Vec<_>>(),
            key,
        ),
        Val::Rec => e.insert(k, &example_record(), key),
        Val::RecList => e.insert(k, &vec![example_record(), example_record()], key),
    }
}

/// the EIP-778 example record as a value of type `Enr` (an `Encodable` like any other)
pub fn example_record() -> Enr<k256::ecdsa::SigningKey> {
    let b = crate::util::unhex(EXAMPLE_RECORD_HEX).unwrap();
    <Enr<k256::ecdsa::SigningKey> as alloy_rlp::Decodable>::decode(&mut &b[..]).expect("the EIP-778 example record decodes")
}

pub fn apply_op<K: EnrKey>(e: &mut Enr<K>, op: &Op, signer: &K, nonsigner: &K) -> Result<RetObs, enr::Error> {
    apply_op_alt(e, op, signer, nonsigner, None)
}

pub fn apply_op_alt<K: EnrKey>(e: &mut Enr<K>, op: &Op, signer: &K, nonsigner: &K, alt: Option<&K>) -> Result<RetObs, enr::Error> {
    let raw = |o: Option<Bytes>| o.map(|b| b.to_vec());
    Ok(match op {
        Op::SetSeq(n) => {
            e.set_seq(*n, signer)?;
            RetObs::Unit
        }
        Op::Insert(k, v) => RetObs::PrevRaw(raw(insert_val(e, k, v, signer)?)),
        Op::InsertRaw(k, r) => RetObs::PrevRaw(raw(e.insert_raw_rlp(k, Bytes::from(r.clone()), signer)?)),
        Op::InsertRawNested(k, depth) => RetObs::PrevRaw(raw(e.insert_raw_rlp(k, Bytes::from(rlp::nested_lists(*depth)), signer)?)),
        Op::SetIp(ip) => RetObs::PrevIp(e.set_ip(*ip, signer)?),
        Op::SetUdp4(p) => RetObs::PrevPort(e.set_udp4(*p, signer)?),
        Op::SetUdp6(p) => RetObs::PrevPort(e.set_udp6(*p, signer)?),
        Op::SetTcp4(p) => RetObs::PrevPort(e.set_tcp4(*p, signer)?),
        Op::SetTcp6(p) => RetObs::PrevPort(e.set_tcp6(*p, signer)?),
        Op::RemoveUdp4 => {
            e.remove_udp4(signer)?;
            RetObs::Unit
        }
        Op::RemoveUdp6 => {
            e.remove_udp6(signer)?;
            RetObs::Unit
        }
        Op::RemoveTcp => {
            e.remove_tcp(signer)?;
            RetObs::Unit
        }
        Op::RemoveTcp6 => {
            e.remove_tcp6(signer)?;
            RetObs::Unit
        }
        Op::SetClientInfo(n, v, b) => {
            e.set_client_info(n.clone(), v.clone(), b.clone(), signer)?;
            RetObs::Unit
        }
        Op::SetUdpSocket(s) => {
            e.set_udp_socket(*s, signer)?;
            RetObs::Unit
        }
        Op::SetTcpSocket(s) => {
            e.set_tcp_socket(*s, signer)?;
            RetObs::Unit
        }
        Op::RemoveUdpSocket => {
            e.remove_udp_socket(signer)?;
            RetObs::Unit
        }
        Op::RemoveUdp6Socket => {
            e.remove_udp6_socket(signer)?;
            RetObs::Unit
        }
        Op::RemoveTcpSocket => {
            e.remove_tcp_socket(signer)?;
            RetObs::Unit
        }
        Op::RemoveTcp6Socket => {
            e.remove_tcp6_socket(signer)?;
            RetObs::Unit
        }
        Op::RemoveKey(k) => {
            e.remove_key(k, signer)?;
            RetObs::Unit
        }
        Op::RemoveInsert(rm, ins) => {
            // the two arguments are `impl Iterator`: pass them as different KINDS of iterator (exact size hints, lower
            // bound 0, lower bound 1, chained, owned items), chosen by the content so that a run is reproducible
            let sel = (rm.len() * 7 + ins.len() * 3 + rm.first().map(|k| k.len()).unwrap_or(0) + ins.first().map(|(_, v)| v.len()).unwrap_or(0) + (e.seq() % 6) as usize) % 6;
            let insit = |sel: usize| -> Box<dyn Iterator<Item = (Vec<u8>, &[u8])> + '_> {
                match sel % 3 {
                    0 => Box::new(ins.iter().map(|(k, v)| (k.clone(), v.as_slice()))),
                    1 => Box::new(ins.iter().filter(|_| true).map(|(k, v)| (k.clone(), v.as_slice()))),
                    _ => Box::new(ins.iter().take(0).chain(ins.iter()).map(|(k, v)| (k.clone(), v.as_slice())).take_while(|_| true)),
                }
            };
            let (a, b) = match sel {
                0 => e.remove_insert(rm.iter(), insit(sel), signer)?,
                1 => e.remove_insert(rm.iter().filter(|_| true), insit(sel), signer)?,
                2 => e.remove_insert(rm.iter().take_while(|_| true), insit(sel), signer)?,
                3 => e.remove_insert(vec![rm.clone()].into_iter().flatten(), insit(sel), signer)?,
                4 => {
                    let mut i = 0usize;
                    e.remove_insert(std::iter::from_fn(|| { i += 1; rm.get(i - 1) }), insit(sel), signer)?
                }
                _ => e.remove_insert(std::iter::successors(rm.first().map(|k| (0usize, k)), |(i, _)| rm.get(i + 1).map(|k| (i + 1, k))).map(|(_, k)| k.clone()), insit(sel), signer)?,
            };
            RetObs::RI(a.into_iter().map(raw).collect(), b.into_iter().map(raw).collect())
        }
        Op::SetPublicKey(which) => {
            let pk = match which {
                PkArg::OfSigner => signer.public(),
                PkArg::OfNonSigner => nonsigner.public(),
                PkArg::OtherScheme => alt.unwrap_or(nonsigner).public(),
            };
            e.set_public_key(&pk, signer)?;
            RetObs::Unit
        }
    })
}

pub fn apply_build<K: EnrKey>(entries: &[BEntry], key: &K) -> Result<Enr<K>, enr::Error> {
    let mut b = Enr::<K>::builder();
    for e in entries {
        apply_entry(&mut b, e);
    }
    b.build(key)
}

/// one builder call
pub fn apply_entry<K: EnrKey>(b: &mut enr::Builder<K>, e: &BEntry) {
    {
        match e {
            BEntry::Seq(n) => {
                b.seq(*n);
            }
            BEntry::Ip(ip) => {
                b.ip(*ip);
            }
            BEntry::Ip4(a) => {
                b.ip4((*a).into());
            }
            BEntry::Ip6(a) => {
                b.ip6((*a).into());
            }
            BEntry::Tcp4(p) => {
                b.tcp4(*p);
            }
            BEntry::Tcp6(p) => {
                b.tcp6(*p);
            }
            BEntry::Udp4(p) => {
                b.udp4(*p);
            }
            BEntry::Udp6(p) => {
                b.udp6(*p);
            }
            BEntry::Add(k, v) => match v {
                Val::B(x) => {
                    b.add_value(k, &x.as_slice());
                }
                Val::U8(x) => {
                    b.add_value(k, x);
                }
                Val::U16(x) => {
                    b.add_value(k, x);
                }
                Val::U64(x) => {
                    b.add_value(k, x);
                }
                Val::Str(x) => {
                    b.add_value(k, x);
                }
                Val::L(l) => {
                    b.add_value(k, &l.iter().map(|x| Bytes::from(x.clone())).collect::<Vec<Bytes>>());
                }
                Val::LL(ll) => {
                    b.add_value(
                        k,
                        &ll.iter().map(|l| l.iter().map(|x| Bytes::from(x.clone())).collect::<Vec<Bytes>>()).collect::<Vec<_>>(),
                    );
                }
                Val::Rec => {
                    b.add_value(k, &example_record());
                }
                Val::RecList => {
                    b.add_value(k, &vec![example_record(), example_record()]);
                }
            },
            BEntry::AddRaw(k, r) => {
                b.add_value_rlp(k, Bytes::from(r.clone()));
            }
            BEntry::AddRawNested(k, depth) => {
                b.add_value_rlp(k, Bytes::from(rlp::nested_lists(*depth)));
            }
            BEntry::Client(n, v, bd) => {
                b.client_info(n.clone(), v.clone(), bd.clone());
            }
        }
    }
}

fn ret_matches(pred: &Ret, got: &RetObs) -> bool {
    match (pred, got) {
        (Ret::Any, _) => true,
        (Ret::Unit, RetObs::Unit) => true,
        (Ret::PrevRaw(a), RetObs::PrevRaw(b)) => a == b,
        (Ret::PrevPort(a), RetObs::PrevPort(b)) => a == b,
        (Ret::PrevIp(a), RetObs::PrevIp(b)) => a == b,
        (Ret::RI(pa, pb), RetObs::RI(ga, gb)) => {
            pa.len() == ga.len()
                && pb.len() == gb.len()
                && pa.iter().zip(ga).all(|(p, g)| p.as_ref().map(|p| p == g).unwrap_or(true))
                && pb.iter().zip(gb).all(|(p, g)| p.as_ref().map(|p| p == g).unwrap_or(true))
        }
        _ => false,
    }
}

fn seq_class(s: u64) -> &'static str {
    match s {
        0 => "0",
        1 => "1",
        126 => "126",
        127 => "127",
        128 => "128",
        254 => "254",
        255 => "255",
        256 => "256",
        65_534 => "2^16-2",
        65_535 => "2^16-1",
        65_536 => "2^16",
        0xffff_fffe => "2^32-2",
        0xffff_ffff => "2^32-1",
        0x1_0000_0000 => "2^32",
        0xffff_ffff_ffff_fffd => "2^64-3",
        0xffff_ffff_ffff_fffe => "2^64-2",
        0xffff_ffff_ffff_ffff => "2^64-1",
        _ => "other",
    }
}

pub struct HistStats {
    pub steps_run: usize,
    pub ok_steps: usize,
    pub err_steps: usize,
    pub panicked: bool,
    pub sign_calls_own: u64,
    pub sign_calls_other: u64,
    /// observations of all Ok states, in order (for the C15 pool)
    pub states: Vec<Obs>,
}

fn msigner(scheme: Scheme, rk: &RefKey) -> MSigner {
    MSigner { scheme, pubkey: rk.pub_bytes(), sig_len: if scheme == Scheme::Toy { None } else { Some(64) } }
}

pub struct RunOpts {
    /// run the full per-state monitors (round trips, sweep) — off for bulk enumerations that
    /// target one monitor only
    pub full_state_checks: bool,
    pub keep_states: bool,
}
impl Default for RunOpts {
    fn default() -> Self {
        Self { full_state_checks: true, keep_states: false }
    }
}

/// C14 oracle: typed accessors vs raw content.
pub fn check_typed(ctx: &mut Ctx, o: &Obs, site: &str, replay: &dyn Fn() -> serde_json::Value) {
    ctx.count("c14.evals");
    let t = &o.typed;
    let port = |k: &[u8]| o.get(k).and_then(|r| rlp::as_uint(r, 2)).map(|v| v as u16);
    let mut bad = |name: &str, ctx: &mut Ctx, detail: String| {
        ctx.violate("C14", "typed-accessor-disagrees-with-raw", &format!("{name}/{site}"), || detail.clone(), replay);
    };
    for (name, got, key) in [("tcp4", t.tcp4, &b"tcp"[..]), ("tcp6", t.tcp6, b"tcp6"), ("udp4", t.udp4, b"udp"), ("udp6", t.udp6, b"udp6")] {
        let want = port(key);
        if got != want {
            bad(name, ctx, format!("{name}() = {got:?}, raw {:?} => {want:?}", o.get(key).map(hex)));
        }
    }
    let want_ip4 = o.get(b"ip").and_then(rlp::as_str).filter(|s| s.len() == 4).map(|s| [s[0], s[1], s[2], s[3]]);
    if t.ip4 != want_ip4 {
        bad("ip4", ctx, format!("ip4() = {:?}, raw {:?}", t.ip4, o.get(b"ip").map(hex)));
    }
    let want_ip6 = o.get(b"ip6").and_then(rlp::as_str).filter(|s| s.len() == 16).map(|s| {
        let mut a = [0u8; 16];
        a.copy_from_slice(s);
        a
    });
    if t.ip6 != want_ip6 {
        bad("ip6", ctx, format!("ip6() = {:?}, raw {:?}", t.ip6, o.get(b"ip6").map(hex)));
    }
    let want_id = o.get(b"id").and_then(rlp::as_str).map(|s| String::from_utf8_lossy(s).to_string());
    if t.id != want_id {
        bad("id", ctx, format!("id() = {:?} want {:?}", t.id, want_id));
    }
    let want_client = o.get(b"client").and_then(rlp::as_str_list).and_then(|l| {
        let s = |b: &Vec<u8>| String::from_utf8_lossy(b).to_string();
        match l.len() {
            2 => Some((s(&l[0]), s(&l[1]), None)),
            3 => Some((s(&l[0]), s(&l[1]), Some(s(&l[2])))),
            _ => None,
        }
    });
    if t.client != want_client {
        bad("client_info", ctx, format!("client_info() = {:?} want {:?}", t.client, want_client));
    }
    // sockets are the conjunction of the same family's accessors; reachability the disjunction
    let conj4 = |ip: Option<[u8; 4]>, p: Option<u16>| ip.and_then(|i| p.map(|p| (i, p)));
    let conj6 = |ip: Option<[u8; 16]>, p: Option<u16>| ip.and_then(|i| p.map(|p| (i, p)));
    if t.udp4_socket != conj4(t.ip4, t.udp4) {
        bad("udp4_socket", ctx, format!("{:?} vs ip4 {:?} udp4 {:?}", t.udp4_socket, t.ip4, t.udp4));
    }
    if t.tcp4_socket != conj4(t.ip4, t.tcp4) {
        bad("tcp4_socket", ctx, format!("{:?} vs ip4 {:?} tcp4 {:?}", t.tcp4_socket, t.ip4, t.tcp4));
    }
    if t.udp6_socket != conj6(t.ip6, t.udp6) {
        bad("udp6_socket", ctx, format!("{:?} vs ip6 {:?} udp6 {:?}", t.udp6_socket, t.ip6, t.udp6));
    }
    if t.tcp6_socket != conj6(t.ip6, t.tcp6) {
        bad("tcp6_socket", ctx, format!("{:?} vs ip6 {:?} tcp6 {:?}", t.tcp6_socket, t.ip6, t.tcp6));
    }
    if t.udp_reachable != (t.udp4_socket.is_some() || t.udp6_socket.is_some()) {
        bad("is_udp_reachable", ctx, format!("{}", t.udp_reachable));
    }
    if t.tcp_reachable != (t.tcp4_socket.is_some() || t.tcp6_socket.is_some()) {
        bad("is_tcp_reachable", ctx, format!("{}", t.tcp_reachable));
    }
}

/// get_decodable vs raw for every pair (C14, generic getters)
pub fn check_get_decodable<K: EnrKey>(ctx: &mut Ctx, e: &Enr<K>, o: &Obs, site: &str, replay: &dyn Fn() -> serde_json::Value) {
    for (k, raw) in &o.pairs {
        let r = guard(|| {
            let u8v = e.get_decodable::<u8>(k).and_then(Result::ok);
            let u16v = e.get_decodable::<u16>(k).and_then(Result::ok);
            let u64v = e.get_decodable::<u64>(k).and_then(Result::ok);
            let bv = e.get_decodable::<Bytes>(k).and_then(Result::ok).map(|b| b.to_vec());
            let sv = e.get_decodable::<String>(k).and_then(Result::ok);
            let lv = e.get_decodable::<Vec<Bytes>>(k).and_then(Result::ok).map(|l| l.into_iter().map(|b| b.to_vec()).collect::<Vec<_>>());
            let rawv = e.get_raw_rlp(k).map(|r| r.to_vec());
            #[allow(deprecated)]
            let getv = if rlp::single_item(raw).is_some() { e.get(k).map(|b| b.to_vec()) } else { None };
            (u8v, u16v, u64v, bv, sv, lv, rawv, getv)
        });
        let (u8v, u16v, u64v, bv, sv, lv, rawv, getv) = match r {
            Ok(v) => v,
            Err(_) => continue, // reported by the C03 sweep
        };
        ctx.count("c14.get_decodable-evals");
        let single = rlp::single_item(raw).is_some();
        if !single {
            continue; // not exactly one item: what a typed read reports is not fixed (C05 reports the state)
        }
        let mut bad = |what: &str, ctx: &mut Ctx, d: String| {
            ctx.violate("C14", "get_decodable-disagrees-with-raw", &format!("{what}/{site}"), || d.clone(), replay);
        };
        if rawv.as_deref() != Some(raw.as_slice()) {
            bad("get_raw_rlp", ctx, format!("get_raw_rlp {:?} vs iter {}", rawv.as_ref().map(|r| hex(r)), hex(raw)));
        }
        // the deprecated get(): the payload of the item (for a list: its payload bytes)
        let wget = rlp::single_item(raw).map(|h| raw[h.off..].to_vec());
        if getv != wget {
            bad("get", ctx, format!("raw {} => get() {:?}", hex(raw), getv.as_ref().map(|b| hex(b))));
        }
        let w8 = rlp::as_uint(raw, 1).map(|v| v as u8);
        if u8v != w8 {
            bad("u8", ctx, format!("raw {} => {:?}, want {:?}", hex(raw), u8v, w8));
        }
        let w16 = rlp::as_uint(raw, 2).map(|v| v as u16);
        if u16v != w16 {
            bad("u16", ctx, format!("raw {} => {:?}, want {:?}", hex(raw), u16v, w16));
        }
        let w64 = rlp::as_uint(raw, 8);
        if u64v != w64 {
            bad("u64", ctx, format!("raw {} => {:?}, want {:?}", hex(raw), u64v, w64));
        }
        let wb = rlp::as_str(raw).map(|s| s.to_vec());
        if bv != wb {
            bad("Bytes", ctx, format!("raw {} => {:?}", hex(raw), bv.as_ref().map(|b| hex(b))));
        }
        let ws = rlp::as_str(raw).and_then(|s| String::from_utf8(s.to_vec()).ok());
        if sv != ws {
            bad("String", ctx, format!("raw {} => {:?} want {:?}", hex(raw), sv, ws));
        }
        let wl = rlp::as_str_list(raw);
        if lv != wl {
            bad("Vec<Bytes>", ctx, format!("raw {} => {:?} want {:?}", hex(raw), lv, wl));
        }
    }
}

/// All per-state monitors on a record the library handed out with Ok.
pub fn check_state<KK: KeyKind>(
    ctx: &mut Ctx,
    e: &Enr<KK::K>,
    o: &Obs,
    site: &str,
    opts: &RunOpts,
    replay: &dyn Fn() -> serde_json::Value,
) -> bool {
    let ktn = KK::name();
    ctx.count("states-checked");
    let mut healthy = true;
    if !cfg!(miri) && !site.contains('[') {
        let bucket = format!("state/{}/{}", KK::KT.name(), site);
        ctx.pytrace(&bucket, 1, || {
            json!({"t": "state", "kt": KK::KT.name(), "site": site, "enc": hex(&o.enc), "seq": o.seq.to_string(), "node_id": hex(&o.node_id),
                   "pubkey": hex(&o.pubkey), "sig": hex(&o.sig), "text": o.text, "verify": o.verify})
        });
    }
    if ctx.judge_lib_made {
        // what the library itself produced, held against RefDecode / RefSig under every key type like any other input
        judge_input(ctx, "lib-made", &o.enc, JudgeOpts { text: false });
        ctx.count("lib-made-records-judged");
    }
    // ---- C05 always-signed invariant
    if let Err(why) = authentic(o) {
        healthy = false;
        ctx.violate("C05", "record-does-not-verify", &format!("{site}/{why}"), || format!("{ktn}: record handed out with Ok fails {why}"), replay);
    }
    if o.typed.id.as_deref() != Some("v4") {
        ctx.violate("C05", "id-not-v4", site, || format!("id() = {:?}", o.typed.id), replay);
    }
    if o.enc.len() > 300 {
        ctx.violate("C05", "exceeds-300", site, || format!("{} bytes", o.enc.len()), replay);
        ctx.violate("C09", "record-exceeds-300", site, || format!("{} bytes", o.enc.len()), replay);
    }
    if o.size != o.enc.len() {
        ctx.violate("C09", "size()-differs-from-encoding", site, || format!("size() {} len {}", o.size, o.enc.len()), replay);
    }
    ctx.count("c09.size-evals");
    check_node_id(ctx, o, site, replay);
    {
        // node id mismatch is also a C05 clause
        let scheme = crate::decmon::scheme_of_entry(&o.pubkey_entry);
        let want = scheme.and_then(|s| o.get(&o.pubkey_entry).and_then(rlp::as_str).and_then(|pk| sig::node_id(s, pk)));
        if want != Some(o.node_id) {
            ctx.violate("C05", "node-id-not-hash-of-carried-key", site, || format!("node id {}", hex(&o.node_id)), replay);
        }
    }
    // ---- C12 canonical text
    let want_text = format!("enr:{}", b64::encode(&o.enc));
    if o.text != want_text {
        ctx.violate("C12", "text-form-not-canonical", site, || format!("to_base64 {} want {}", o.text, want_text), replay);
    }
    // ---- C14
    check_typed(ctx, o, site, replay);
    if o.into_iter_pairs != o.pairs {
        ctx.violate("C08", "into_iter-differs-from-iter", site, || "owning iteration yields other pairs than iter()".into(), replay);
    }
    if !opts.full_state_checks {
        // still: accepted again by the decoder (C05) — cheap enough
        let d = decode_as::<KK::K>(&o.enc);
        if d.res.is_err() || d.remaining != 0 {
            ctx.violate("C05", "not-accepted-again-by-decoder", &format!("{site}/{}", short_err(&d.res)), || {
                format!("{ktn}: decode(encode(r)) = {:?}", d.res.as_ref().err())
            }, replay);
            healthy = false;
        }
        return healthy;
    }
    check_get_decodable(ctx, e, o, site, replay);
    // ---- C03 accessor sweep
    let (n, bad) = sweep(e);
    ctx.add("c03.accessor-calls", n);
    for (acc, msg) in bad {
        ctx.count("panics");
        ctx.violate("C03", "panic", &format!("{acc}/{}", panic_sig(&msg)), || format!("{acc} panicked on a record handed out with Ok ({site}): {msg}"), replay);
    }
    // ---- Encodable::length() and the list framing alloy-rlp derives from it
    match guard(|| {
        use alloy_rlp::Encodable;
        (e.length(), alloy_rlp::encode(vec![e.clone(), e.clone()]))
    }) {
        Ok((len, listed)) => {
            if len != o.enc.len() {
                ctx.violate("C09", "length()-differs-from-encoding", site, || format!("length() {len}, encoding {}", o.enc.len()), replay);
            }
            let want = rlp::enc_list_payload(&[o.enc.clone(), o.enc.clone()].concat());
            if listed != want {
                ctx.violate("C13", "list-encoding-of-records-malformed", site, || format!("encode(vec![r, r]) = {}", hex(&listed[..listed.len().min(12)])), replay);
                ctx.violate("C04", "list-encoding-of-records-malformed", site, || "encode(vec![r, r]) is not the list of the two encodings".into(), replay);
            }
        }
        Err(p) => ctx.violate("C03", "panic", &format!("length/{}", panic_sig(&p)), || p.clone(), replay),
    }
    // ---- C04 / C05: round trips
    let d = decode_as::<KK::K>(&o.enc);
    ctx.count("c04.roundtrips");
    let cmp = |ctx: &mut Ctx, form: &str, d: &crate::dec::DecOut| {
        if let Some(p) = &d.panic {
            ctx.violate("C03", "panic", &format!("{form}/{}", panic_sig(p)), || format!("{form} of own output panicked: {p}"), replay);
            return;
        }
        match &d.res {
            Err(err) => {
                ctx.violate("C04", "own-output-rejected", &format!("{form}/{site}/{}", short_err(&d.res)), || {
                    format!("{ktn}: {form} of a record handed out with Ok fails: {err}")
                }, replay);
                if form == "bytes" {
                    ctx.violate("C15", "record-has-no-decode-after-encode-image", &format!("{site}/{}", short_err(&d.res)), || {
                        format!("{ktn}: decode(encode(r)) fails, so r cannot equal its image: {err}")
                    }, replay);
                    ctx.violate("C05", "not-accepted-again-by-decoder", &format!("{site}/{}", short_err(&d.res)), || {
                        format!("{ktn}: decode(encode(r)) = {err}")
                    }, replay);
                }
            }
            Ok(o2) => {
                if o2.seq != o.seq || o2.pairs != o.pairs || o2.sig != o.sig || o2.node_id != o.node_id || o2.pubkey != o.pubkey || o2.enc != o.enc || o2.typed != o.typed {
                    ctx.violate("C04", "roundtrip-changes-fields", &format!("{form}/{site}"), || format!("{ktn}: {form} round trip changed the record"), replay);
                }
                if o2.hash != o.hash {
                    ctx.violate("C15", "roundtrip-image-hashes-differently", &format!("{form}/{site}"), || "hash differs".into(), replay);
                }
            }
        }
    };
    cmp(ctx, "bytes", &d);
    if d.res.is_err() || d.panic.is_some() {
        // a record its own decoder refuses: later steps of this history would only cascade
        return false;
    }
    cmp(ctx, "text", &parse_as::<KK::K>(&o.text));
    cmp(ctx, "text-noprefix", &parse_as::<KK::K>(o.text.trim_start_matches("enr:")));
    let disp = guard(|| format!("{e}")).unwrap_or_default();
    if disp != o.text {
        ctx.violate("C12", "display-differs-from-text", site, || format!("Display {disp}"), replay);
    }
    match guard(|| serde_json::to_string(e)) {
        Ok(Ok(js)) => {
            if js != format!("\"{}\"", want_text) {
                ctx.violate("C12", "json-form-not-canonical", site, || format!("json {js}"), replay);
            }
            cmp(ctx, "json", &json_as::<KK::K>(&js));
            for (form, d) in crate::dec::json_variants_as::<KK::K>(&js) {
                cmp(ctx, form, &d);
            }
        }
        Ok(Err(err)) => {
            ctx.violate("C04", "own-output-rejected", &format!("json-serialise/{site}"), || format!("to_string failed: {err}"), replay);
        }
        Err(_) => {}
    }
    // equality with the round-trip image (needs the objects)
    let eq = guard(|| {
        let mut b: &[u8] = &o.enc;
        match <Enr<KK::K> as alloy_rlp::Decodable>::decode(&mut b) {
            Ok(e2) => Some((e2 == *e, *e == e2, e.compare_content(&e2), e.clone() == *e)),
            Err(_) => None,
        }
    });
    if let Ok(Some((a, b, c, cl))) = eq {
        ctx.count("c15.evals");
        if !a || !b {
            ctx.violate("C15", "record-differs-from-its-decode-image", site, || format!("{a} {b}"), replay);
            ctx.violate("C04", "roundtrip-not-equal", site, || "decode(encode(r)) != r".into(), replay);
        }
        if !c {
            ctx.violate("C15", "compare_content-false-on-decode-image", site, || "".into(), replay);
        }
        if !cl {
            ctx.violate("C15", "record-differs-from-its-clone", site, || "".into(), replay);
        }
    }
    healthy
}

/// States in which a genuine, recorded defect of the library is known to show; the site label of
/// every monitor evaluated there carries the tag, so that the known-finding signature is specific.
pub fn corner_of(kt: crate::refimpl::decode::KT, scheme: Scheme, pairs: &Pairs) -> Option<&'static str> {
    if kt == crate::refimpl::decode::KT::Comb && scheme == Scheme::Ed {
        if let Some(raw) = pairs.get(&b"secp256k1"[..]) {
            if let Some(s) = rlp::as_str(raw) {
                // any SEC1 form the k256 back-end (which CombinedKey reads secp256k1 entries with) understands
                if sig::secp_normalise(s).is_some() && !(s.len() == 65 && s[0] != 4) {
                    return Some("combined-ed25519-signer+valid-secp256k1-entry");
                }
            }
        }
    }
    None
}

fn opn_of(op: &Op) -> &'static str {
    op.name()
}

pub fn short_err(r: &Result<Obs, String>) -> String {
    match r {
        Ok(_) => "ok".into(),
        Err(e) => e.chars().filter(|c| c.is_ascii_alphabetic() || *c == ' ').take(40).collect::<String>().trim().replace(' ', "-"),
    }
}

/// Execute one history with every monitor.
pub fn run_history<KK: KeyKind>(ctx: &mut Ctx, h: &History, opts: &RunOpts) -> HistStats {
    let st = run_history_inner::<KK>(ctx, h, opts);
    ctx.trace_end();
    st
}

fn run_history_inner<KK: KeyKind>(ctx: &mut Ctx, h: &History, opts: &RunOpts) -> HistStats {
    let ktn = KK::name();
    let replay = || json!({"kind": "history", "kt": KK::KT.name(), "faulty": KK::FAULTY, "history": serde_json::to_value(h).unwrap()});
    if cfg!(miri) && ctx.expired() {
        ctx.count("deadline-skips");
        return HistStats { steps_run: 0, ok_steps: 0, err_steps: 0, panicked: false, sign_calls_own: 0, sign_calls_other: 0, states: Vec::new() };
    }
    ctx.trace_case(&replay);
    ctx.count("histories");
    let own_ref = RefKey::new(h.scheme, secret_from(h.scheme, h.own));
    let other_ref = RefKey::new(h.scheme, secret_from(h.scheme, h.other));
    let ms_own = msigner(h.scheme, &own_ref);
    let ms_other = msigner(h.scheme, &other_ref);
    let own_k = KK::make(h.scheme, &own_ref.secret);
    let other_k = KK::make(h.scheme, &other_ref.secret);
    // CombinedKey histories also get a key of the other scheme (as an ARGUMENT, never as a signer)
    let alt_scheme = match h.scheme {
        Scheme::Secp => Scheme::Ed,
        _ => Scheme::Secp,
    };
    let (alt_k, ms_alt) = if KK::KT == crate::refimpl::decode::KT::Comb && cfg!(feature = "ed") {
        let rk = RefKey::new(alt_scheme, secret_from(alt_scheme, 0xa17));
        (Some(KK::make(alt_scheme, &rk.secret)), Some(msigner(alt_scheme, &rk)))
    } else {
        (None, None)
    };
    KK::arm(&own_k, None);
    KK::arm(&other_k, None);
    match h.fault {
        Some((Signer::Own, n)) | Some((Signer::Alt, n)) => KK::arm(&own_k, Some(n)),
        Some((Signer::Other, n)) => KK::arm(&other_k, Some(n)),
        None => {}
    }
    let mut stats = HistStats { steps_run: 0, ok_steps: 0, err_steps: 0, panicked: false, sign_calls_own: 0, sign_calls_other: 0, states: Vec::new() };
    let mut events: Vec<serde_json::Value> = Vec::new();

    // ------------------------------------------------------------------ initial record
    let init_res: Result<Result<Enr<KK::K>, String>, String> = match &h.init {
        Init::Build(entries) => guard(|| apply_build(entries, &own_k).map_err(|e| err_kind(&e).to_string())),
        Init::Decode(bytes) => guard(|| {
            let mut b: &[u8] = bytes;
            <Enr<KK::K> as alloy_rlp::Decodable>::decode(&mut b).map_err(|e| format!("decode: {e:?}"))
        }),
    };
    let fired = KK::take_fired(&own_k);
    ctx.count("evaluations");
    let mut enr = match init_res {
        Err(p) => {
            ctx.count("panics");
            ctx.violate("C03", "panic", &format!("init/{}", panic_sig(&p)), || format!("{ktn}: building/decoding the initial record panicked: {p}"), &replay);
            stats.panicked = true;
            return finish::<KK>(stats, &own_k, &other_k);
        }
        Ok(r) => {
            if let Init::Build(entries) = &h.init {
                let mut pred = predict_build(entries, &ms_own);
                if fired {
                    pred.must.push(Cause::SignerFault);
                }
                ctx.count(&format!("op.build.{}", if r.is_ok() { "ok" } else { "err" }));
                match &r {
                    Err(kind) => {
                        for c in pred.must.iter().chain(pred.may.iter()) {
                            ctx.count(&format!("gate.fail.build.{}", c.name()));
                        }
                        let admissible: Vec<&str> = pred.must.iter().chain(pred.may.iter()).flat_map(|c| c.kinds().iter().copied()).collect();
                        if admissible.is_empty() {
                            ctx.violate("C08", "error-without-cause", &format!("build/{kind}"), || format!("{ktn}: build failed with {kind} although the model finds no cause"), &replay);
                            if kind == "ExceedsMaxSize" {
                                ctx.violate("C09", "builder-refuses-small-result", "build", || format!("{ktn}: build refused a result of {} bytes", record_size(&ms_own, pred.seq, &pred.pairs)), &replay);
                            }
                        } else if !admissible.contains(&kind.as_str()) {
                            ctx.violate("C08", "error-kind-mismatch", &format!("build/{kind}"), || format!("{ktn}: build failed with {kind}, admissible {admissible:?}"), &replay);
                        }
                    }
                    Ok(_) => {
                        if let Some(c) = pred.must.first() {
                            ctx.violate("C08", "ok-despite-cause", &format!("build/{}", c.name()), || format!("{ktn}: build succeeded although {} applies", c.name()), &replay);
                            if *c == Cause::Size {
                                ctx.violate("C09", "builder-accepts-oversize", "build", || "build Ok above 300 bytes".into(), &replay);
                            }
                        }
                        let sz = record_size(&ms_own, pred.seq, &pred.pairs);
                        ctx.count(&format!("gate.build-ok-size.{}", if sz >= 292 { "292..300" } else { "small" }));
                    }
                }
                if let Ok(e) = &r {
                    match observe(e) {
                        Ok(o) => {
                            let got: Pairs = o.pairs.iter().cloned().collect();
                            if got != pred.pairs {
                                ctx.violate("C08", "pairs-differ-from-model", "build", || format!("{ktn}: built pairs differ from builder pairs + id + key"), &replay);
                            }
                            if o.seq != pred.seq {
                                ctx.violate("C07", "builder-seq-not-exact", "build", || format!("seq {} want {}", o.seq, pred.seq), &replay);
                            }
                        }
                        Err(_) => {}
                    }
                }
            }
            match r {
                Ok(e) => e,
                Err(_) => {
                    ctx.count("init-refused");
                    return finish::<KK>(stats, &own_k, &other_k);
                }
            }
        }
    };
    let mut cur = match observe(&enr) {
        Ok(o) => o,
        Err(p) => {
            ctx.count("panics");
            ctx.violate("C03", "panic", &format!("observe-init/{}", panic_sig(&p)), || format!("{ktn}: accessor panicked on the initial record: {p}"), &replay);
            stats.panicked = true;
            return finish::<KK>(stats, &own_k, &other_k);
        }
    };
    let init_site = match corner_of(KK::KT, h.scheme, &cur.pairs.iter().cloned().collect()) {
        Some(c) => format!("init[{c}]"),
        None => "init".to_string(),
    };
    if !check_state::<KK>(ctx, &enr, &cur, &init_site, opts, &replay) {
        ctx.count("histories-abandoned-on-broken-state");
        return finish::<KK>(stats, &own_k, &other_k);
    }
    if cur.pubkey != ms_own.pubkey {
        ctx.violate("C05", "initial-record-carries-another-key", "init", || "".into(), &replay);
    }
    if opts.keep_states {
        stats.states.push(cur.clone());
    }

    // an auxiliary record of ANOTHER key type, updated and read between the steps of every third history: state
    // that a call leaves behind on the thread must not damage an unrelated record (nor the other way round)
    let aux_key = k256::ecdsa::SigningKey::from_slice(&secret_from(Scheme::Secp, 0xa0a0)).expect("aux key");
    let mut aux: Option<Enr<k256::ecdsa::SigningKey>> = if !cfg!(miri) && (h.own + h.steps.len() as u64) % 3 == 0 {
        guard(|| Enr::<k256::ecdsa::SigningKey>::builder().udp4(1).build(&aux_key).ok()).ok().flatten()
    } else {
        None
    };
    // ------------------------------------------------------------------ steps
    for (i, step) in h.steps.iter().enumerate() {
        if let Some(a) = aux.as_mut() {
            let r = guard(|| {
                let ok = a.set_udp4(i as u16 + 2, &aux_key).is_ok();
                let enc = alloy_rlp::encode(&*a);
                let back = <Enr<k256::ecdsa::SigningKey> as alloy_rlp::Decodable>::decode(&mut &enc[..]).is_ok();
                (ok, a.verify(), back, a.udp4())
            });
            ctx.count("aux-record-steps");
            match r {
                Ok((true, true, true, Some(p))) if p == i as u16 + 2 => {}
                Ok(other) => {
                    ctx.violate("C05", "auxiliary-record-broken-by-interleaved-history", opn_of(&step.op), || {
                        format!("{ktn}: a k256 record updated between the steps of this history: (ok, verify, re-decodes, udp4) = {other:?} before step {i}")
                    }, &replay);
                    aux = None;
                }
                Err(p) => {
                    ctx.violate("C03", "panic", &format!("aux/{}", panic_sig(&p)), || p.clone(), &replay);
                    aux = None;
                }
            }
        }
        if cfg!(miri) && ctx.expired() {
            ctx.count("deadline-skips");
            break;
        }
        if step.signer == Signer::Alt {
            // cross-scheme signer: reduced monitors, then the history ends
            if let Some(ak) = alt_k.as_ref() {
                let res = guard(|| apply_op_alt(&mut enr, &step.op, ak, &own_k, None));
                ctx.count("evaluations");
                ctx.count("cross-scheme-steps");
                match res {
                    Err(p) => ctx.violate("C03", "panic", &format!("{}/{}", step.op.name(), panic_sig(&p)), || format!("{ktn}: cross-scheme {} panicked: {p}", step.op.name()), &replay),
                    Ok(r) => {
                        let enc = guard(|| (alloy_rlp::encode(&enr), enr.size()));
                        match enc {
                            Ok((enc, size)) => {
                                if r.is_ok() && enc.len() > 300 {
                                    ctx.violate("C09", "record-exceeds-300", &format!("{}[cross-scheme-signer]", step.op.name()), || format!("{ktn}: {} bytes after a cross-scheme {}", enc.len(), step.op.name()), &replay);
                                }
                                if size != enc.len() {
                                    ctx.violate("C09", "size()-differs-from-encoding", &format!("{}[cross-scheme-signer]", step.op.name()), || format!("size() {size} len {}", enc.len()), &replay);
                                }
                                if r.is_err() && enc != cur.enc {
                                    ctx.violate("C06", "record-changed-by-failed-update", &format!("{}[cross-scheme-signer]/encoding", step.op.name()), || "a failed cross-scheme update changed the record".into(), &replay);
                                }
                                // the node id is not part of the encoding: look at it separately, and hold it against
                                // the key the record carries whatever the call returned
                                if let Ok(post) = observe(&enr) {
                                    if r.is_err() && (post.node_id != cur.node_id || post.seq != cur.seq || post.sig != cur.sig) {
                                        ctx.violate("C06", "record-changed-by-failed-update", &format!("{}[cross-scheme-signer]/node-id", step.op.name()), || {
                                            format!("{ktn}: a failed cross-scheme {} left node id {} (was {})", step.op.name(), hex(&post.node_id), hex(&cur.node_id))
                                        }, &replay);
                                    }
                                    check_node_id(ctx, &post, &format!("{}[cross-scheme-signer]", step.op.name()), &replay);
                                }
                            }
                            Err(p) => ctx.violate("C03", "panic", &format!("encode/{}", panic_sig(&p)), || p.clone(), &replay),
                        }
                    }
                }
            }
            break;
        }
        let (signer_k, nonsigner_k, ms_s, ms_n) = match step.signer {
            Signer::Own | Signer::Alt => (&own_k, &other_k, &ms_own, &ms_other),
            Signer::Other => (&other_k, &own_k, &ms_other, &ms_own),
        };
        let opn = step.op.name();
        let pre = cur.clone();
        let pre_pairs: Pairs = pre.pairs.iter().cloned().collect();
        let mut pred = predict(pre.seq, &pre_pairs, &step.op, &ModelCtx { signer: ms_s, nonsigner: ms_n, alt: ms_alt.as_ref() });
        let before = guard(|| enr.clone()).ok();
        let res = guard(|| apply_op_alt(&mut enr, &step.op, signer_k, nonsigner_k, alt_k.as_ref()));
        let fired = KK::take_fired(signer_k);
        if fired {
            pred.must.push(Cause::SignerFault);
        }
        stats.steps_run += 1;
        ctx.count("evaluations");
        ctx.count("steps");
        let site = match corner_of(KK::KT, h.scheme, &pred.pairs) {
            Some(c) => format!("{opn}[{c}]"),
            None => opn.to_string(),
        };
        let mut abandon = false;
        let res = match res {
            Err(p) => {
                ctx.count("panics");
                ctx.violate("C03", "panic", &format!("{opn}/{}", panic_sig(&p)), || format!("{ktn}: step {i} {opn} panicked: {p}"), &replay);
                stats.panicked = true;
                break;
            }
            Ok(r) => r,
        };
        let post = match observe(&enr) {
            Ok(o) => o,
            Err(p) => {
                ctx.count("panics");
                ctx.violate("C03", "panic", &format!("observe-after-{opn}/{}", panic_sig(&p)), || {
                    format!("{ktn}: accessor panicked on the record after step {i} {opn} returned {}: {p}", if res.is_ok() { "Ok" } else { "Err" })
                }, &replay);
                if res.is_err() {
                    let core = observe_core(&enr);
                    if (core.0, &core.1, core.2.as_slice(), core.3.as_slice(), core.4.as_slice()) != pre.core() {
                        ctx.violate("C06", "record-changed-by-failed-update", &format!("{opn}/state-unobservable"), || "record changed and accessors panic".into(), &replay);
                    }
                    // the record was handed out with Ok by an earlier step; it is still the caller's record
                    ctx.violate("C05", "record-invalid-after-failed-update", &format!("{opn}/unobservable"), || {
                        format!("{ktn}: after step {i} {opn} returned Err, public_key()/verify() panic on the record")
                    }, &replay);
                } else {
                    ctx.violate("C05", "record-unobservable-after-ok", &site, || "public_key()/verify() panic on a record returned with Ok".into(), &replay);
                }
                stats.panicked = true;
                break;
            }
        };
        // ---- C15: whatever the call did, a record that still compares equal to its former self carries the same
        // pairs and encodes identically
        if let Some(b) = &before {
            if let Ok(true) = guard(|| *b == enr) {
                ctx.count("c15.evals");
                if (post.pairs != pre.pairs || post.enc != pre.enc || post.hash != pre.hash) && post.sig.len() >= 16 {
                    ctx.violate("C15", "equal-records-differ-in-content-or-encoding", &format!("before-vs-after/{opn}"), || {
                        format!("{ktn}: after {opn} ({}) the record == its former self but pairs equal {} encoding equal {}", if res.is_ok() { "Ok" } else { "Err" }, post.pairs == pre.pairs, post.enc == pre.enc)
                    }, &replay);
                }
            }
        }
        // ---- Clone::clone_from of the new state into the old one (other pairs, perhaps another signature length or
        // key): the slot becomes the source in every respect
        if let Some(mut slot) = before {
            match guard(|| {
                slot.clone_from(&enr);
                (alloy_rlp::encode(&slot), slot.node_id().raw(), slot == enr)
            }) {
                Ok((enc, nid, eq)) => {
                    ctx.count("c15.clone_from");
                    if enc != post.enc || nid != post.node_id || !eq {
                        ctx.violate("C15", "clone_from-result-differs-from-source", &format!("after-{opn}"), || format!("{ktn}: clone_from(new state) into the old state: same encoding {}, same node id {}, == {eq}", enc == post.enc, nid == post.node_id), &replay);
                    }
                }
                Err(p) => {
                    ctx.violate("C03", "panic", &format!("clone_from/{}", panic_sig(&p)), || format!("{ktn}: clone_from of the state after step {i} {opn} into the state before it panicked: {p}"), &replay);
                }
            }
        }
        let causes: String = {
            let mut v: Vec<&str> = pred.must.iter().map(|c| c.name()).collect();
            v.sort();
            v.dedup();
            v.join("+")
        };
        match &res {
            Err(e) => {
                let kind = err_kind(e);
                // the error value itself is part of the API: Display, Debug, source() and Clone/Eq on it
                // (an abort here is attributed by the supervisor to this history)
                if let Err(p) = guard(|| {
                    use std::error::Error as _;
                    let _ = (format!("{e}"), format!("{e:?}"), format!("{e:#?}"), e.source().map(|s| s.to_string()), e.clone() == *e);
                }) {
                    ctx.violate("C03", "panic", &format!("Error-format/{}", panic_sig(&p)), || format!("formatting Err({kind}) panicked: {p}"), &replay);
                }
                ctx.count("c03.error-values-formatted");
                stats.err_steps += 1;
                ctx.count(&format!("op.{opn}.err.{kind}"));
                for c in &pred.must {
                    ctx.count(&format!("gate.fail.{}.{}", step.op.family(), c.name()));
                }
                if ctx.prop == "C06" {
                    ctx.distinct(h64(&[opn.as_bytes(), causes.as_bytes(), &pre.enc]));
                }
                // ---- C06 atomicity
                ctx.count("c06.evals");
                if post.core() != pre.core() || !post.verify {
                    let what = if post.seq != pre.seq {
                        "seq"
                    } else if post.pairs != pre.pairs {
                        "pairs"
                    } else if post.sig != pre.sig {
                        "signature"
                    } else if post.node_id != pre.node_id {
                        "node-id"
                    } else if !post.verify {
                        "verify"
                    } else {
                        "encoding"
                    };
                    ctx.violate("C06", "record-changed-by-failed-update", &format!("{opn}/{}/{what}", if causes.is_empty() { kind } else { &causes }), || {
                        format!("{ktn}: step {i} {opn} returned Err({kind}) but {what} changed (seq {}→{}, verify {})", pre.seq, post.seq, post.verify)
                    }, &replay);
                    // ---- C10: so does "the node id is the hash of the key the record carries"
                    check_node_id(ctx, &post, &format!("{opn}[after-failed-update]"), &replay);
                    // ---- C05: the always-signed invariant ranges over every state of the caller's record, also the
                    // one a failing update leaves behind (on a correct library that is the checked pre-state)
                    if let Err(why) = authentic(&post) {
                        ctx.violate("C05", "record-invalid-after-failed-update", &format!("{opn}/{why}"), || {
                            format!("{ktn}: after step {i} {opn} returned Err({kind}) the record fails {why}")
                        }, &replay);
                        // later steps would only report consequences of this state
                        abandon = true;
                    }
                }
                // ---- C07: only successful updates move the sequence number
                if post.seq != pre.seq {
                    ctx.violate("C07", "seq-changed-by-failed-update", &site, || format!("{ktn}: {opn} returned Err({kind}) and seq went {} → {}", pre.seq, post.seq), &replay);
                }
                // ---- C08 error kinds
                let admissible: Vec<&str> = pred.must.iter().chain(pred.may.iter()).flat_map(|c| c.kinds().iter().copied()).collect();
                if admissible.is_empty() {
                    ctx.violate("C08", "error-without-cause", &format!("{opn}/{kind}"), || {
                        format!("{ktn}: step {i} {opn} failed with {kind} although the model finds no cause; op {:?}", step.op)
                    }, &replay);
                } else if !admissible.contains(&kind) {
                    ctx.violate("C08", "error-kind-mismatch", &format!("{opn}/{kind}/{causes}"), || {
                        format!("{ktn}: step {i} {opn} failed with {kind}; causes {causes}; admissible {admissible:?}")
                    }, &replay);
                }
                // ---- C07 no wrap: overflow must be reported as such when it is the only cause
                if pred.must == [Cause::SeqOverflow] && pred.may.is_empty() && kind != "SequenceNumberTooHigh" {
                    ctx.violate("C07", "overflow-reported-as-other-error", &format!("{opn}/{kind}"), || format!("{ktn}: update at 2^64-1 failed with {kind}"), &replay);
                }
                // ---- C09 refused for size exactly when exceeded (built-in key types)
                if kind == "ExceedsMaxSize" && h.scheme != Scheme::Toy {
                    ctx.count(&format!("gate.c09.refused.{}", step.op.family()));
                    if !pred.must.contains(&Cause::Size) && !pred.may.contains(&Cause::Size) {
                        ctx.violate("C09", "refused-for-size-although-result-fits", &site, || {
                            format!("{ktn}: {opn} refused with ExceedsMaxSize; model size {}", record_size(ms_s, pred.seq, &pred.pairs))
                        }, &replay);
                    }
                }
            }
            Ok(ret) => {
                stats.ok_steps += 1;
                ctx.count(&format!("op.{opn}.ok"));
                if step.signer == Signer::Other {
                    ctx.count("rekey-steps-ok");
                }
                // ---- causes that should have prevented success
                if let Some(c) = pred.must.first() {
                    ctx.violate("C08", "ok-despite-cause", &format!("{opn}/{}", c.name()), || {
                        format!("{ktn}: step {i} {opn} returned Ok although {causes} applies; op {:?}", step.op)
                    }, &replay);
                }
                if pred.must.contains(&Cause::Size) && h.scheme != Scheme::Toy {
                    ctx.violate("C09", "accepted-although-result-exceeds-300", &site, || format!("{ktn}: {opn} Ok, size {}", post.enc.len()), &replay);
                }
                if pred.must.contains(&Cause::SeqOverflow) {
                    ctx.violate("C07", "update-at-max-seq-succeeded", &site, || format!("seq {} → {}", pre.seq, post.seq), &replay);
                }
                if pred.must.contains(&Cause::SignerFault) {
                    ctx.violate("C06", "ok-despite-signer-fault", &site, || "the signer failed but the update returned Ok".into(), &replay);
                }
                // ---- C07
                ctx.count("c07.evals");
                if ctx.prop == "C07" {
                    ctx.distinct(h64(&[opn.as_bytes(), seq_class(pre.seq).as_bytes(), seq_class(post.seq).as_bytes()]));
                }
                if post.seq != pred.seq {
                    let rule = if matches!(step.op, Op::SetSeq(_)) { "set_seq-not-exact" } else { "seq-not-plus-one" };
                    ctx.violate("C07", rule, &site, || format!("{ktn}: step {i} {opn}: seq {} → {}, expected {}", pre.seq, post.seq, pred.seq), &replay);
                }
                // ---- C08 effects and returns
                ctx.count("c08.evals");
                let got: Pairs = post.pairs.iter().cloned().collect();
                let changes = got != pre_pairs;
                if got != pred.pairs {
                    let extra: Vec<String> = got.iter().filter(|(k, v)| pred.pairs.get(*k) != Some(v)).map(|(k, _)| String::from_utf8_lossy(k).to_string()).collect();
                    let missing: Vec<String> = pred.pairs.iter().filter(|(k, v)| got.get(*k) != Some(v)).map(|(k, _)| String::from_utf8_lossy(k).to_string()).collect();
                    ctx.violate("C08", "pairs-differ-from-model", &site, || {
                        format!("{ktn}: step {i} {opn}: unexpected/changed {extra:?}, missing/different {missing:?}; op {:?}", step.op)
                    }, &replay);
                }
                if !ret_matches(&pred.ret, ret) {
                    ctx.violate("C08", "return-value-differs", &site, || format!("{ktn}: step {i} {opn} returned {ret:?}, model {:?}", pred.ret), &replay);
                }
                let nonempty_ret = !matches!(ret, RetObs::Unit | RetObs::PrevRaw(None) | RetObs::PrevPort(None) | RetObs::PrevIp(None));
                if ctx.prop == "C08" && (changes || nonempty_ret) {
                    ctx.distinct(h64(&[format!("{:?}", step.op).as_bytes(), &pre.enc]));
                }
                // ---- C05 re-keying, C10 stability
                if post.pubkey != ms_s.pubkey {
                    ctx.violate("C05", "public-key-not-the-signers", &format!("{site}/{:?}", step.signer), || {
                        format!("{ktn}: after {opn} signed by {:?} the record carries {}", step.signer, hex(&post.pubkey))
                    }, &replay);
                }
                if pre.pubkey == ms_s.pubkey && post.node_id != pre.node_id {
                    ctx.violate("C10", "node-id-changed-under-same-key", &site, || format!("{} → {}", hex(&pre.node_id), hex(&post.node_id)), &replay);
                }
                match ctx.prop.as_str() {
                    "C05" | "C04" | "C10" | "C12" | "C14" | "C09" => ctx.distinct(h64(&[&post.enc])),
                    "C03" => ctx.distinct(h64(&[format!("{:?}", step.op).as_bytes(), &(pre.pairs.len() as u64).to_le_bytes(), seq_class(pre.seq).as_bytes()])),
                    _ => {}
                }
                let healthy = check_state::<KK>(ctx, &enr, &post, &site, opts, &replay);
                if opts.keep_states && healthy {
                    stats.states.push(post.clone());
                }
                if !healthy {
                    ctx.count("histories-abandoned-on-broken-state");
                    break;
                }
            }
        }
        if abandon {
            ctx.count("histories-abandoned-on-broken-state");
            break;
        }
        if events.len() < 40 {
            events.push(json!({"op": opn, "arg": match &step.op {
                    Op::SetSeq(n) => json!(n.to_string()),
                    Op::SetUdp4(p) | Op::SetUdp6(p) | Op::SetTcp4(p) | Op::SetTcp6(p) => json!(p),
                    _ => serde_json::Value::Null,
                },
                "res": match &res { Ok(_) => "ok".to_string(), Err(e) => format!("err:{}", err_kind(e)) },
                "pre_seq": pre.seq.to_string(), "post_seq": post.seq.to_string(),
                "pre_enc": hex(&pre.enc), "post_enc": hex(&post.enc), "post_node_id": hex(&post.node_id)}));
        }
        cur = post;
        if ctx.samples.len() < ctx.sample_cap && i + 1 == h.steps.len() {
            ctx.sample(|| json!({"kt": ktn, "history": serde_json::to_value(h).unwrap(), "final": cur.brief()}));
        }
    }
    if !cfg!(miri) && !events.is_empty() && !stats.panicked && corner_of(KK::KT, h.scheme, &cur.pairs.iter().cloned().collect()).is_none() {
        let bucket = format!("hist/{}/{}", KK::KT.name(), h.steps.len().min(3));
        ctx.pytrace(&bucket, 2, || json!({"t": "hist", "kt": KK::KT.name(), "events": events}));
    }
    finish::<KK>(stats, &own_k, &other_k)
}

fn finish<KK: KeyKind>(mut s: HistStats, own: &KK::K, other: &KK::K) -> HistStats {
    s.sign_calls_own = KK::sign_calls(own);
    s.sign_calls_other = KK::sign_calls(other);
    s
}
