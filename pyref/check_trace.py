#!/usr/bin/env python3
"""Offline checker over recorded boundary events (DESIGN.md §4.7).

Reads the *.pytrace.jsonl files the Rust workers sampled and re-judges every event with the
from-scratch Python model in enrref.py:

  dec   — an input decoded under a key type: pyref's own three-valued verdict must match the Rust
          RefDecode verdict class; if the library accepted, the reported seq / node id / public key /
          signature / text must be what pyref computes from the input bytes, and if pyref is decisive the
          library's accept/reject must match it.
  state — a record the library handed out with Ok: pyref must accept its encoding under that key type and
          compute the same seq, node id, public key; text == 'enr:' + base64url(encoding).
  hist  — the events of one history: Ok => seq' = seq + 1 (set_seq: the requested value), Err => encoding
          unchanged; every post-state accepted by pyref with the recorded node id; typed port setters
          store the canonical integer.

Prints one JSON object: {"events", "judged", "by_type", "complaints": [...]}.  A complaint is a
disagreement between pyref and what the Rust side recorded; the supervisor reports it as
INCONCLUSIVE (oracle disagreement) unless the Rust monitors raised the violation themselves.
"""
import json
import multiprocessing
import os
import sys

sys.path.insert(0, os.path.dirname(os.path.abspath(__file__)))
import enrref as R  # noqa: E402


def judge_dec(e):
    out = []
    b = bytes.fromhex(e["input"])
    r = R.decode(b, e["kt"])
    cls = {"accept": "accept", "reject": "reject", "open": "open", "not-one-item": "not-one-item"}[r[0]]
    if cls != e["ref_class"]:
        out.append("pyref says %s (%s) but the Rust RefDecode says %s (%s)" % (cls, r[1] if cls != "accept" else "", e["ref_class"], e["ref"]))
    if cls in ("accept", "reject") and (e["lib"] == "accept") != (cls == "accept"):
        out.append("library %ss an input that pyref %ss (%s)" % (e["lib"], cls, r[1] if cls == "reject" else ""))
    if e["lib"] == "accept":
        # whatever region the input is in, an accepted record must be authentic by pyref's own computation
        one = b[: len(b) - e.get("remaining", 0)]
        r1 = R.decode(one, e["kt"]) if e.get("remaining", 0) else r
        if r1[0] == "accept":
            f = r1[1]
            if str(f["seq"]) != e["seq"] or f["node_id"].hex() != e["node_id"] or f["pubkey"].hex() != e["pubkey"] or f["sig"].hex() != e["sig"]:
                out.append("accepted record: library-reported fields differ from pyref's parse")
            if e.get("text") != "enr:" + R.b64url_nopad(one):
                out.append("text form is not enr: + base64url(record)")
        elif r1[0] == "reject":
            out.append("library accepted what pyref rejects: %s" % r1[1])
    return out


def judge_state(e):
    out = []
    b = bytes.fromhex(e["enc"])
    r = R.decode(b, e["kt"])
    if r[0] == "accept":
        f = r[1]
        if str(f["seq"]) != e["seq"] or f["node_id"].hex() != e["node_id"] or f["pubkey"].hex() != e["pubkey"] or f["sig"].hex() != e["sig"]:
            out.append("state at %s: fields differ from pyref's parse of its encoding" % e["site"])
        if e["text"] != "enr:" + R.b64url_nopad(b):
            out.append("state at %s: text form not canonical" % e["site"])
        if not e["verify"]:
            out.append("state at %s: verify() false on a record pyref accepts" % e["site"])
    elif r[0] == "reject":
        out.append("state at %s handed out with Ok is rejected by pyref: %s" % (e["site"], r[1]))
    if len(b) > 300:
        out.append("state at %s exceeds 300 bytes" % e["site"])
    return out


def judge_hist(e):
    out = []
    for i, ev in enumerate(e["events"]):
        pre, post = int(ev["pre_seq"]), int(ev["post_seq"])
        if ev["res"] == "ok":
            want = int(ev["arg"]) if ev["op"] == "set_seq" else pre + 1
            if post != want or post >= 2**64:
                out.append("step %d %s: seq %d -> %d, expected %d" % (i, ev["op"], pre, post, want))
            b = bytes.fromhex(ev["post_enc"])
            r = R.decode(b, e["kt"])
            if r[0] == "reject":
                out.append("step %d %s: post-state rejected by pyref: %s" % (i, ev["op"], r[1]))
            elif r[0] == "accept":
                if r[1]["node_id"].hex() != ev["post_node_id"] or r[1]["seq"] != post:
                    out.append("step %d %s: node id / seq differ from pyref's parse" % (i, ev["op"]))
                key = {"set_udp4": b"udp", "set_udp6": b"udp6", "set_tcp4": b"tcp", "set_tcp6": b"tcp6"}.get(ev["op"])
                if key is not None:
                    port = int(ev["arg"])
                    raw = dict(r[1]["pairs"]).get(key)
                    want_raw = R.enc_str(port.to_bytes((port.bit_length() + 7) // 8, "big"))
                    if raw != want_raw:
                        out.append("step %d %s(%d): stored %s" % (i, ev["op"], port, raw.hex() if raw else None))
        else:
            if ev["post_enc"] != ev["pre_enc"] or post != pre:
                out.append("step %d %s returned %s but the record changed" % (i, ev["op"], ev["res"]))
    return out


def judge(line):
    try:
        e = json.loads(line)
        t = e.get("t")
        if t == "dec":
            c = judge_dec(e)
        elif t == "state":
            c = judge_state(e)
        elif t == "hist":
            c = judge_hist(e)
        else:
            return (t, [], None)
        return (t, c, e if c else None)
    except Exception as ex:  # a crash of the checker is a complaint too, never silence
        return ("error", ["pyref crashed: %r" % (ex,)], line[:300])


def main():
    R.selftest()
    lines = []
    for p in sys.argv[1:]:
        try:
            with open(p) as f:
                lines.extend(l for l in f if l.strip())
        except OSError:
            pass
    limit = int(os.environ.get("PYREF_MAX_EVENTS", "6000"))
    if len(lines) > limit:
        step = len(lines) / float(limit)
        lines = [lines[int(i * step)] for i in range(limit)]
    by = {}
    complaints = []
    if lines:
        with multiprocessing.Pool(min(16, os.cpu_count() or 4)) as pool:
            for t, c, e in pool.imap_unordered(judge, lines, chunksize=16):
                by[t] = by.get(t, 0) + 1
                for msg in c:
                    if len(complaints) < 20:
                        complaints.append({"type": t, "complaint": msg, "event": e})
    print(json.dumps({"events": len(lines), "judged": sum(by.values()), "by_type": by, "complaints": complaints}))


if __name__ == "__main__":
    main()
