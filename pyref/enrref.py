"""pyref — from-scratch reference for EIP-778 records (Python stdlib only).

Keccak-256, secp256k1 ECDSA verification, RFC 8032 Ed25519 verification, strict RLP, the EIP-778
decoder (three-valued like RefDecode of the Rust harness, written independently from the
specification and from the statement of property C02) and the node id.  Used by check_trace.py to
re-judge sampled traces recorded by the Rust monitors (DESIGN.md §4.7).
"""
import hashlib

# ------------------------------------------------------------------------------------ keccak-256
_RC = [0x0000000000000001, 0x0000000000008082, 0x800000000000808A, 0x8000000080008000, 0x000000000000808B,
       0x0000000080000001, 0x8000000080008081, 0x8000000000008009, 0x000000000000008A, 0x0000000000000088,
       0x0000000080008009, 0x000000008000000A, 0x000000008000808B, 0x800000000000008B, 0x8000000000008089,
       0x8000000000008003, 0x8000000000008002, 0x8000000000000080, 0x000000000000800A, 0x800000008000000A,
       0x8000000080008081, 0x8000000000008080, 0x0000000080000001, 0x8000000080008008]
_ROT = [[0, 36, 3, 41, 18], [1, 44, 10, 45, 2], [62, 6, 43, 15, 61], [28, 55, 25, 21, 56], [27, 20, 39, 8, 14]]
_M = (1 << 64) - 1


def _rol(x, n):
    n %= 64
    return ((x << n) | (x >> (64 - n))) & _M if n else x


def _f1600(a):
    for rc in _RC:
        c = [a[x][0] ^ a[x][1] ^ a[x][2] ^ a[x][3] ^ a[x][4] for x in range(5)]
        d = [c[(x - 1) % 5] ^ _rol(c[(x + 1) % 5], 1) for x in range(5)]
        a = [[a[x][y] ^ d[x] for y in range(5)] for x in range(5)]
        b = [[0] * 5 for _ in range(5)]
        for x in range(5):
            for y in range(5):
                b[y][(2 * x + 3 * y) % 5] = _rol(a[x][y], _ROT[x][y])
        a = [[b[x][y] ^ ((~b[(x + 1) % 5][y]) & b[(x + 2) % 5][y]) for y in range(5)] for x in range(5)]
        a[0][0] ^= rc
    return a


def keccak256(data):
    rate = 136
    p = bytearray(data)
    p.append(0x01)
    while len(p) % rate:
        p.append(0)
    p[-1] |= 0x80
    a = [[0] * 5 for _ in range(5)]
    for off in range(0, len(p), rate):
        blk = p[off:off + rate]
        for i in range(rate // 8):
            a[i % 5][i // 5] ^= int.from_bytes(blk[8 * i:8 * i + 8], "little")
        a = _f1600(a)
    out = b""
    for i in range(4):
        out += a[i % 5][i // 5].to_bytes(8, "little")
    return out


# ------------------------------------------------------------------------------------ secp256k1
P = 2**256 - 2**32 - 977
N = 0xFFFFFFFFFFFFFFFFFFFFFFFFFFFFFFFEBAAEDCE6AF48A03BBFD25E8CD0364141
G = (0x79BE667EF9DCBBAC55A06295CE870B07029BFCDB2DCE28D959F2815B16F81798,
     0x483ADA7726A3C4655DA4FBFC0E1108A8FD17B448A68554199C47D08FFB10D4B8)


def _inv(a, m):
    return pow(a, -1, m)


def _add(p1, p2):
    if p1 is None:
        return p2
    if p2 is None:
        return p1
    x1, y1 = p1
    x2, y2 = p2
    if x1 == x2:
        if (y1 + y2) % P == 0:
            return None
        l = 3 * x1 * x1 * _inv(2 * y1, P) % P
    else:
        l = (y2 - y1) * _inv(x2 - x1, P) % P
    x3 = (l * l - x1 - x2) % P
    return (x3, (l * (x1 - x3) - y1) % P)


def _mul(k, pt):
    r = None
    while k:
        if k & 1:
            r = _add(r, pt)
        pt = _add(pt, pt)
        k >>= 1
    return r


def secp_decompress(b):
    """33-byte compressed key (02/03) -> point, or None"""
    if len(b) != 33 or b[0] not in (2, 3):
        return None
    x = int.from_bytes(b[1:], "big")
    if x >= P:
        return None
    y2 = (pow(x, 3, P) + 7) % P
    y = pow(y2, (P + 1) // 4, P)
    if y * y % P != y2:
        return None
    if (y & 1) != (b[0] & 1):
        y = P - y
    return (x, y)


def secp_point_any(b):
    """compressed, or 65-byte uncompressed/hybrid -> point or None"""
    if len(b) == 33:
        return secp_decompress(b)
    if len(b) == 65 and b[0] in (4, 6, 7):
        x = int.from_bytes(b[1:33], "big")
        y = int.from_bytes(b[33:], "big")
        if x >= P or y >= P or (y * y - x * x * x - 7) % P:
            return None
        if b[0] != 4 and (y & 1) != (b[0] & 1):
            return None
        return (x, y)
    return None


def ecdsa_verify_v4(pub_point, content, sig):
    """EIP-778 v4: 64 bytes r||s, low-S, over keccak256(content)"""
    if len(sig) != 64 or pub_point is None:
        return False
    r = int.from_bytes(sig[:32], "big")
    s = int.from_bytes(sig[32:], "big")
    if not (0 < r < N and 0 < s < N) or s > N // 2:
        return False
    z = int.from_bytes(keccak256(content), "big")
    w = _inv(s, N)
    pt = _add(_mul(z * w % N, G), _mul(r * w % N, pub_point))
    return pt is not None and pt[0] % N == r


def secp_pub_from_secret(secret):
    d = int.from_bytes(secret, "big")
    if not 0 < d < N:
        return None
    x, y = _mul(d, G)
    return bytes([2 + (y & 1)]) + x.to_bytes(32, "big")


# ------------------------------------------------------------------------------------ ed25519 (RFC 8032)
_q = 2**255 - 19
_L = 2**252 + 27742317777372353535851937790883648493
_d = -121665 * pow(121666, -1, _q) % _q
_I = pow(2, (_q - 1) // 4, _q)


def _ed_add(p1, p2):
    x1, y1, z1, t1 = p1
    x2, y2, z2, t2 = p2
    a = (y1 - x1) * (y2 - x2) % _q
    b = (y1 + x1) * (y2 + x2) % _q
    c = 2 * t1 * t2 * _d % _q
    dd = 2 * z1 * z2 % _q
    e, f, g, h = b - a, dd - c, dd + c, b + a
    return (e * f % _q, g * h % _q, f * g % _q, e * h % _q)


def _ed_mul(s, pt):
    r = (0, 1, 1, 0)
    while s:
        if s & 1:
            r = _ed_add(r, pt)
        pt = _ed_add(pt, pt)
        s >>= 1
    return r


def _ed_eq(p1, p2):
    return (p1[0] * p2[2] - p2[0] * p1[2]) % _q == 0 and (p1[1] * p2[2] - p2[1] * p1[2]) % _q == 0


def _ed_decode(b):
    if len(b) != 32:
        return None
    y = int.from_bytes(b, "little")
    sign = y >> 255
    y &= (1 << 255) - 1
    if y >= _q:
        return "noncanonical"
    x2 = (y * y - 1) * pow(_d * y * y + 1, -1, _q) % _q
    if x2 == 0:
        if sign:
            return None
        x = 0
    else:
        x = pow(x2, (_q + 3) // 8, _q)
        if (x * x - x2) % _q:
            x = x * _I % _q
        if (x * x - x2) % _q:
            return None
        if (x & 1) != sign:
            x = _q - x
    return (x, y, 1, x * y % _q)


_by = 4 * pow(5, -1, _q) % _q
_B = _ed_decode(_by.to_bytes(32, "little"))


def ed_small_order(pt):
    return _ed_eq(_ed_mul(8, pt), (0, 1, 1, 0))


def ed_verify(pub, msg, sig):
    if len(pub) != 32 or len(sig) != 64:
        return False
    a = _ed_decode(pub)
    r = _ed_decode(sig[:32])
    if a is None or r is None or a == "noncanonical" or r == "noncanonical":
        return False
    s = int.from_bytes(sig[32:], "little")
    if s >= _L:
        return False
    h = int.from_bytes(hashlib.sha512(sig[:32] + pub + msg).digest(), "little") % _L
    return _ed_eq(_ed_mul(s, _B), _ed_add(r, _ed_mul(h, a)))


# ------------------------------------------------------------------------------------ toy scheme
def _fnv(h, data):
    for b in data:
        h ^= b
        h = (h * 0x100000001B3) & _M
    return h


def _splitmix(x):
    x = (x + 0x9E3779B97F4A7C15) & _M
    z = x
    z = ((z ^ (z >> 30)) * 0xBF58476D1CE4E5B9) & _M
    z = ((z ^ (z >> 27)) * 0x94D049BB133111EB) & _M
    return x, z ^ (z >> 31)


def toy_sig(pub, msg):
    h = _fnv(_fnv(0xCBF29CE484222325, pub), msg)
    if len(pub) > 0 and pub[0] >= 0xF0:
        n = 300 + h % 50
    elif len(pub) > 0 and pub[0] >= 0xE0:
        n = 1 + h % 8
    else:
        n = 40 + h % 50
    s = h
    out = b""
    while len(out) < n:
        s, v = _splitmix(s)
        out += v.to_bytes(8, "little")
    return out[:n]


# ------------------------------------------------------------------------------------ strict RLP
class RlpError(Exception):
    pass


def rlp_header(b, pos=0):
    """-> (is_list, payload_start, payload_len); strict canonical form; the item must be complete"""
    if pos >= len(b):
        raise RlpError("empty")
    f = b[pos]
    if f < 0x80:
        return (False, pos, 1)
    if f <= 0xB7 or 0xC0 <= f <= 0xF7:
        lst = f >= 0xC0
        n = f - (0xC0 if lst else 0x80)
        if not lst and n == 1:
            if pos + 1 >= len(b):
                raise RlpError("short")
            if b[pos + 1] < 0x80:
                raise RlpError("non-canonical single byte")
        if pos + 1 + n > len(b):
            raise RlpError("short")
        return (lst, pos + 1, n)
    lst = f >= 0xF8
    ll = f - (0xF7 if lst else 0xB7)
    if pos + 1 + ll > len(b):
        raise RlpError("short")
    lb = b[pos + 1:pos + 1 + ll]
    if lb[0] == 0:
        raise RlpError("leading zero in length")
    n = int.from_bytes(lb, "big")
    if n < 56:
        raise RlpError("long form for short payload")
    if pos + 1 + ll + n > len(b):
        raise RlpError("short")
    return (lst, pos + 1 + ll, n)


def rlp_frames(b, start, end):
    """top-level items of b[start:end] as (is_list, payload_start, payload_len, item_start, item_end)"""
    out = []
    pos = start
    while pos < end:
        lst, ps, pl = rlp_header(b[:end], pos)
        out.append((lst, ps, pl, pos, ps + pl))
        pos = ps + pl
    return out


def rlp_wellformed(b, start, end):
    try:
        lst, ps, pl = rlp_header(b[:end], start)
    except RlpError:
        return False
    if ps + pl != end:
        return False
    if not lst:
        return True
    try:
        return all(rlp_wellformed(b, f[3], f[4]) for f in rlp_frames(b, ps, ps + pl))
    except RlpError:
        return False


def enc_len(n, off):
    if n < 56:
        return bytes([off + n])
    lb = n.to_bytes((n.bit_length() + 7) // 8, "big")
    return bytes([off + 55 + len(lb)]) + lb


def enc_str(s):
    if len(s) == 1 and s[0] < 0x80:
        return bytes(s)
    return enc_len(len(s), 0x80) + bytes(s)


def enc_list(payload):
    return enc_len(len(payload), 0xC0) + payload


def canon_uint(raw_payload, maxlen):
    """payload bytes of a string item -> int or None (canonical, no leading zero)"""
    if len(raw_payload) > maxlen or (len(raw_payload) > 0 and raw_payload[0] == 0):
        return None
    return int.from_bytes(raw_payload, "big")


# ------------------------------------------------------------------------------------ EIP-778 decoder
SCHEMES = {"k256": ["secp"], "libsecp256k1": ["secp"], "ed25519": ["ed"], "combined": ["secp", "ed"], "toy": ["toy"]}


def _pub_validity(scheme, b):
    """'valid' | 'invalid' | 'open'"""
    if scheme == "secp":
        if len(b) == 65:
            return "open"
        return "valid" if secp_decompress(b) is not None else "invalid"
    if scheme == "ed":
        if len(b) != 32:
            return "invalid"
        pt = _ed_decode(b)
        if pt == "noncanonical":
            return "open"
        if pt is None:
            # x = 0 with the sign bit set is a non-canonical encoding of a small-order point (RFC 8032 rejects
            # it, ed25519-dalek decompresses it): an open region, like the other odd encodings
            y = int.from_bytes(b, "little") & ((1 << 255) - 1)
            if (y * y - 1) % _q == 0 and b[31] & 0x80:
                return "open"
            return "invalid"
        return "open" if ed_small_order(pt) else "valid"
    return "valid" if len(b) == 32 else "invalid"


def verify(scheme, pub, content, sig):
    if scheme == "secp":
        return ecdsa_verify_v4(secp_point_any(pub), content, sig)
    if scheme == "ed":
        return ed_verify(pub, content, sig)
    return len(pub) == 32 and toy_sig(pub, content) == sig


def node_id(scheme, pub):
    if scheme == "secp":
        pt = secp_point_any(pub)
        if pt is None:
            return None
        return keccak256(pt[0].to_bytes(32, "big") + pt[1].to_bytes(32, "big"))
    return keccak256(pub) if len(pub) == 32 else None


def decode(b, kt):
    """-> ('accept', fields) | ('reject', rule) | ('open', region) | ('not-one-item', consumed)"""
    try:
        lst, ps, pl = rlp_header(b, 0)
    except RlpError:
        return ("reject", "outer-frame")
    if ps + pl < len(b):
        return ("not-one-item", ps + pl)
    if not lst:
        return ("reject", "outer-not-list")
    if len(b) > 300:
        return ("reject", "size")
    try:
        fr = rlp_frames(b, ps, ps + pl)
    except RlpError:
        return ("reject", "item-frame")
    if not fr:
        return ("reject", "empty-list")
    if fr[0][0]:
        return ("reject", "signature-not-string")
    sig = b[fr[0][1]:fr[0][1] + fr[0][2]]
    if len(fr) < 2:
        return ("reject", "no-seq")
    if fr[1][0]:
        return ("reject", "seq")
    seq = canon_uint(b[fr[1][1]:fr[1][1] + fr[1][2]], 8)
    if seq is None:
        return ("reject", "seq")
    rest = fr[2:]
    if len(rest) % 2:
        return ("reject", "missing-value")
    open_region = None
    pairs = []
    entries = {}
    prev = None
    has_id = False
    for i in range(0, len(rest), 2):
        k, v = rest[i], rest[i + 1]
        if k[0]:
            return ("reject", "key-not-string")
        key = bytes(b[k[1]:k[1] + k[2]])
        if prev is not None:
            if prev == key:
                return ("reject", "duplicate-key")
            if prev > key:
                return ("reject", "unsorted-keys")
        prev = key
        vstr = None if v[0] else bytes(b[v[1]:v[1] + v[2]])
        raw = bytes(b[v[3]:v[4]])
        if key == b"id":
            if vstr != b"v4":
                return ("reject", "id")
            has_id = True
        elif key in (b"tcp", b"tcp6", b"udp", b"udp6"):
            if vstr is None or canon_uint(vstr, 2) is None:
                return ("reject", "port")
        elif key == b"ip":
            if vstr is None or len(vstr) != 4:
                return ("reject", "ip")
        elif key == b"ip6":
            if vstr is None or len(vstr) != 16:
                return ("reject", "ip6")
        elif key in (b"secp256k1", b"ed25519") or (key == b"toy" and kt == "toy"):
            entries[{b"secp256k1": "secp", b"ed25519": "ed", b"toy": "toy"}[key]] = vstr if vstr is not None else "not-string"
        elif v[0] and not rlp_wellformed(b, v[3], v[4]):
            open_region = "list-inner-malformed"
        pairs.append((key, raw))
    if not has_id:
        return ("reject", "no-id")

    def judge(scheme):
        e = entries.get(scheme)
        if e is None:
            return ("reject", "no-pubkey")
        if e == "not-string":
            return ("reject", "pubkey-not-string")
        pv = _pub_validity(scheme, e)
        if pv == "valid":
            return ("ok", e)
        return ("reject", "pubkey-invalid") if pv == "invalid" else ("open", "pubkey-open-encoding")

    chosen = None
    for i, scheme in enumerate(SCHEMES[kt]):
        r = judge(scheme)
        if r[0] == "ok":
            chosen = (scheme, r[1])
            break
        if r[0] == "open" or i == len(SCHEMES[kt]) - 1:
            return r
    scheme, pub = chosen
    for s2 in ("secp", "ed"):
        if s2 != scheme and entries.get(s2) == "not-string":
            open_region = "other-scheme-entry-not-string"
    if open_region:
        return ("open", open_region)
    content = enc_list(bytes(b[fr[0][4]:ps + pl]))
    if not verify(scheme, pub, content, sig):
        return ("reject", "signature")
    return ("accept", {"seq": seq, "sig": sig, "pairs": pairs, "scheme": scheme, "pubkey": pub, "node_id": node_id(scheme, pub)})


# ------------------------------------------------------------------------------------ base64url
_ALPHA = "ABCDEFGHIJKLMNOPQRSTUVWXYZabcdefghijklmnopqrstuvwxyz0123456789-_"


def b64url_nopad(data):
    out = []
    for i in range(0, len(data), 3):
        c = data[i:i + 3]
        n = int.from_bytes(c + b"\0" * (3 - len(c)), "big")
        out.append(_ALPHA[n >> 18 & 63] + _ALPHA[n >> 12 & 63] + (_ALPHA[n >> 6 & 63] if len(c) > 1 else "") + (_ALPHA[n & 63] if len(c) > 2 else ""))
    return "".join(out)


def selftest():
    assert keccak256(b"").hex() == "c5d2460186f7233c927e7db2dcc703c0e500b653ca82273b7bfad8045d85a470"
    assert keccak256(b"abc").hex() == "4e03657aea45a94fc7d47ba826c8d667c0d1e6e33a64a036ec44f58fa12d6c45"
    # EIP-778 example record
    import base64
    text = "-IS4QHCYrYZbAKWCBRlAy5zzaDZXJBGkcnh4MHcBFZntXNFrdvJjX04jRzjzCBOonrkTfj499SZuOh8R33Ls8RRcy5wBgmlkgnY0gmlwhH8AAAGJc2VjcDI1NmsxoQPKY0yuDUmstAHYpMa2_oxVtw0RW_QAdpzBQA8yWM0xOIN1ZHCCdl8"
    raw = base64.urlsafe_b64decode(text + "=" * (-len(text) % 4))
    assert b64url_nopad(raw) == text
    r = decode(raw, "k256")
    assert r[0] == "accept", r
    assert r[1]["node_id"].hex() == "a448f24c6d18e575453db13171562b71999873db5b286df957af199ec94617f7"
    assert r[1]["seq"] == 1
    assert secp_pub_from_secret(bytes.fromhex("b71c71a67e1177ad4e901695e1b4b9ee17ae16c6668d313eac2f96dbcda3f291")) == r[1]["pubkey"]
    # RFC 8032 test 2
    pk = bytes.fromhex("3d4017c3e843895a92b70aa74d1b7ebc9c982ccf2ec4968cc0cd55f12af4660c")
    sg = bytes.fromhex("92a009a9f0d4cab8720e820b5f642540a2b27b5416503f8fb3762223ebdb69da085ac1e43e15996e458f3613d0f11d8c387b2eaeb4302aeeb00d291612bb0c00")
    assert ed_verify(pk, b"\x72", sg) and not ed_verify(pk, b"\x73", sg)
    # a flipped bit in the example record must be rejected for its signature
    bad = bytearray(raw)
    bad[100] ^= 1
    assert decode(bytes(bad), "k256")[0] == "reject"
    return True


if __name__ == "__main__":
    selftest()
    print("pyref selftest ok")
